#!/usr/bin/env python3
"""Driver for the solver-based (Kani/CBMC) checks of rust-vmm/vhost.

  ./vcheck.py C05 --tier quick        run every harness registered for C05 in that tier
  ./vcheck.py --list                  list harnesses
  ./vcheck.py --setup                 pre-build the per-slot Kani target dirs
  ./vcheck.py C20 --harness c20_log   run a subset (no evidence written)

Exit 0: property held on everything explored (KNOWN-FINDING lines for listed findings)
Exit 1: VIOLATION property=<id> replay=<path>
Exit 2: inconclusive (timeout, out of memory, unwinding bound too small, vacuous harness,
        counterexample that does not reproduce natively) - never reported as success.
"""
import argparse, concurrent.futures as cf, hashlib, json, os, re, shutil, subprocess, sys, time

VERIF = os.path.dirname(os.path.abspath(__file__))
REPO = os.environ.get("VHOST_REPO", "/repo")
WORK = os.environ.get("VERIF_WORK", os.path.join(VERIF, ".work"))
HARNESS_DIR = os.path.join(VERIF, "harness")
EVIDENCE_DIR = os.path.join(VERIF, "evidence")
REPLAY_DIR = os.path.join(VERIF, "replays")
KNOWN = os.path.join(VERIF, "known_findings.json")

VHOST_FEATURES = "verif,vhost-user-frontend,vhost-user-backend,vhost-kern,vhost-vdpa,vhost-net,vhost-vsock"
# harness file -> (package, features, module path of the child module)
MODULES = {
    "vu_message": ("vhost", "vhost_user::message::verif"),
    "vu_gpu_message": ("vhost", "vhost_user::gpu_message::verif"),
    "vu_connection": ("vhost", "vhost_user::connection::verif"),
    "vu_frontend": ("vhost", "vhost_user::frontend::verif"),
    "vu_backend_req_handler": ("vhost", "vhost_user::backend_req_handler::verif"),
    "vu_frontend_req_handler": ("vhost", "vhost_user::frontend_req_handler::verif"),
    "vu_backend_req": ("vhost", "vhost_user::backend_req::verif"),
    "vu_gpu_backend_req": ("vhost", "vhost_user::gpu_backend_req::verif"),
    "vu_mod": ("vhost", "vhost_user::verif"),
    "vhost_backend": ("vhost", "backend::verif"),
    "vk_mod": ("vhost", "vhost_kern::verif"),
    "vk_vdpa": ("vhost", "vhost_kern::vdpa::verif"),
    "vk_net": ("vhost", "vhost_kern::net::verif"),
    "vk_vsock": ("vhost", "vhost_kern::vsock::verif"),
    "vub_handler": ("vhost-user-backend", "handler::verif"),
    "vub_event_loop": ("vhost-user-backend", "event_loop::verif"),
    "vub_bitmap": ("vhost-user-backend", "bitmap::verif"),
    "vub_vring": ("vhost-user-backend", "vring::verif"),
    "vub_backend": ("vhost-user-backend", "backend::verif"),
    "vub_lib": ("vhost-user-backend", "verif"),
}
PKG_FEATURES = {"vhost": VHOST_FEATURES, "vhost-user-backend": "verif"}
TIERS = {"quick": 0, "thorough": 1}


# ----------------------------------------------------------------- discovery
def discover():
    """Harness metadata lives next to the harness: a `// @harness k=v ...` comment line."""
    out = []
    for fn in sorted(os.listdir(HARNESS_DIR)):
        if not fn.endswith(".rs"):
            continue
        stem = fn[:-3]
        if stem not in MODULES:
            continue
        pkg, modpath = MODULES[stem]
        lines = open(os.path.join(HARNESS_DIR, fn)).read().split("\n")
        for i, l in enumerate(lines):
            m = re.match(r"\s*// @harness\s+(.*)$", l)
            if not m:
                continue
            meta = {}
            for k, v in re.findall(r'(\w+)=("[^"]*"|\S+)', m.group(1)):
                meta[k] = v.strip('"')
            name = None
            sub = ""
            for j in range(i + 1, min(i + 14, len(lines))):
                m2 = re.search(r"\bfn\s+(\w+)\s*\(", lines[j]) or re.match(r"\s*\w+!\(\s*(\w+)\s*,", lines[j])
                if m2:
                    name = m2.group(1)
                    break
            if not name:
                raise SystemExit(f"{fn}:{i+1}: @harness without fn")
            end = item_end(lines, i + 1)
            if "mod" in meta:
                sub = "::" + meta["mod"]
            out.append({
                "name": name, "file": fn, "pkg": pkg, "fq": f"{modpath}{sub}::{name}",
                "props": meta.get("props", "").split(","), "tier": meta.get("tier", "quick"),
                "bound": meta.get("bound", ""), "timeout": int(meta.get("timeout", "300")),
                "native": meta.get("native", "no") == "yes", "stubs": meta.get("stubs", ""),
                "expect": meta.get("expect", "pass"), "line": i + 1, "reach": meta.get("reach", "on"), "mem": int(meta.get("mem", "0")), "thorough_for": meta.get("thorough_for", "").split(","),
                "end_line": end + 1,
            })
    names = [h["name"] for h in out]
    dup = {n for n in names if names.count(n) > 1}
    if dup:
        raise SystemExit(f"duplicate harness names: {dup}")
    return out


def item_end(lines, i):
    """0-based index of the last line of the item that starts at line i (a one-line macro invocation or a
    brace-delimited block).  Harness sources keep braces out of string literals, so plain counting is enough."""
    if re.match(r"^\s*\w+!\(.*\);\s*$", lines[i]):
        return i
    depth, started = 0, False
    for j in range(i, len(lines)):
        code = lines[j].split("//")[0]
        depth += code.count("{") - code.count("}")
        started = started or "{" in code
        if started and depth <= 0:
            return j
    return len(lines) - 1


# ------------------------------------------------------------------ running
def slot_dir(k):
    return os.path.join(WORK, f"slot{k}")


def kani_cmd(pkg, target_dir, fqs, timeout, extra=()):
    cmd = ["cargo", "kani", "-p", pkg, "--features", PKG_FEATURES[pkg], "--target-dir", target_dir,
           "-Z", "stubbing", "-Z", "unstable-options", "--harness-timeout", f"{timeout}s", "--exact"]
    for fq in fqs:
        cmd += ["--harness", fq]
    cmd += list(extra)
    return cmd


def env_for(verif_dir=None):
    e = dict(os.environ)
    e["VHOST_VERIF_DIR"] = verif_dir or e.get("VHOST_VERIF_DIR_OVERRIDE", VERIF)
    e["CARGO_NET_OFFLINE"] = "true"
    e.pop("RUSTFLAGS", None)
    return e


def errors_in_harnesses(text, all_h):
    """Map rustc error locations inside harness/*.rs to the harnesses whose item contains them.
    -> (harnesses, isolable): isolable is False when some error lies outside every harness item (shared
    helper, /repo source), in which case leaving harnesses out cannot repair the build."""
    locs = re.findall(r"^error(?:\[E\d+\])?:[^\n]*\n(?:[^\n]*\n){0,3}?\s+--> (\S+?):(\d+):\d+", text, flags=re.M)
    bad, isolable = {}, bool(locs)
    for path, line in locs:
        fn, line = os.path.basename(path), int(line)
        if "/harness/" not in path:
            isolable = False
            continue
        hit = [h for h in all_h if h["file"] == fn and h["line"] <= line <= h["end_line"]]
        if hit:
            bad[hit[0]["name"]] = hit[0]
        else:
            isolable = False
    return list(bad.values()), isolable


def filtered_harness_copy(slot, bad):
    """Copy of /verif/harness with the items of `bad` blanked out (line numbers preserved)."""
    root = os.path.join(WORK, f"harness_filtered{slot}")
    shutil.rmtree(root, ignore_errors=True)
    shutil.copytree(HARNESS_DIR, os.path.join(root, "harness"))
    os.makedirs(os.path.join(root, ".work"), exist_ok=True)
    shutil.copy(os.path.join(WORK, "uapi_table.rs"), os.path.join(root, ".work", "uapi_table.rs"))
    for fn in {h["file"] for h in bad}:
        p = os.path.join(root, "harness", fn)
        lines = open(p).read().split("\n")
        for h in bad:
            if h["file"] == fn:
                for k in range(h["line"] - 1, h["end_line"]):
                    lines[k] = ""
        open(p, "w").write("\n".join(lines))
    return root


def run_group_resilient(slot, pkg, hs, mem_kb, log_path, jobs, all_h):
    """run_group; when the crate does not compile because of harnesses that call private items which the
    tree under test has changed (a refactor), leave exactly those harnesses out - they are reported as
    inconclusive - and run the rest, instead of losing every harness of the package."""
    res = run_group(slot, pkg, hs, mem_kb, log_path, (), jobs)
    left_out = {}
    for attempt in range(3):
        if not res or not all(r["status"] == "COMPILE_ERROR" for r in res.values()):
            break
        text = open(log_path if attempt == 0 else log_path + f".retry{attempt}", errors="replace").read()
        bad, isolable = errors_in_harnesses(text, [h for h in all_h if h["pkg"] == pkg])
        if not bad or not isolable:
            break
        for b in bad:
            left_out[b["name"]] = b
        root = filtered_harness_copy(slot, list(left_out.values()))
        rest = [h for h in hs if h["name"] not in left_out]
        if not rest:
            break
        res2 = run_group(slot, pkg, rest, mem_kb, log_path + f".retry{attempt + 1}", (), jobs, verif_dir=root)
        for h in hs:
            if h["name"] in left_out:
                res2[h["name"]] = dict(res[h["name"]], status="COMPILE_ERROR",
                                       detail="this harness does not compile against the tree under test (an item it calls was changed); it was left out so that the other harnesses could run")
        res = res2
    if left_out:
        print(f"[driver] left out (do not compile against this tree): {', '.join(sorted(left_out))}")
    return res


def run_group(slot, pkg, hs, mem_kb, log_path, extra=(), jobs=1, verif_dir=None):
    """One cargo-kani process (own target dir) verifying the harnesses `hs`; with jobs>1 Kani verifies
    them in parallel after a single compilation and writes one result file per harness."""
    tmo = max(h["timeout"] for h in hs)
    extra = list(extra)
    if hs[0].get("reach") == "off":
        extra += ["--no-assertion-reach-checks"]
    outdir = os.path.join(slot_dir(slot), "result_output_dir")
    parallel = jobs > 1 and len(hs) > 1
    if parallel:
        shutil.rmtree(outdir, ignore_errors=True)
        extra += ["-j", str(min(jobs, len(hs))), "--output-format", "terse", "--output-into-files"]
    cmd = kani_cmd(pkg, slot_dir(slot), [h["fq"] for h in hs], tmo, extra)
    waves = (len(hs) + max(1, min(jobs, len(hs))) - 1) // max(1, min(jobs, len(hs)))
    total = tmo * waves + 300
    sh = f"ulimit -v {mem_kb}; exec timeout {total} " + " ".join(map(shquote, cmd))
    t0 = time.time()
    with open(log_path, "w") as lf:
        p = subprocess.run(["bash", "-c", sh], cwd=REPO, env=env_for(verif_dir), stdout=lf, stderr=subprocess.STDOUT)
    wall = time.time() - t0
    text = open(log_path, errors="replace").read()
    if parallel:
        # stitch the per-harness files into the format parse_output understands
        pre = text.split("Thread ", 1)[0]
        parts = [pre]
        for h in hs:
            f = os.path.join(outdir, h["fq"])
            if os.path.exists(f):
                body = open(f, errors="replace").read()
                parts.append(f"Checking harness {h['fq']}...\n" + body)
        # thread-level notes (timeouts are reported on stdout only)
        stitched = "\n".join(parts)
        with open(log_path, "w") as lf:
            lf.write(stitched + "\n==== driver stdout ====\n" + text[-20000:])
        text_for_parse = stitched
        res = parse_output(text_for_parse, hs)
        for h in hs:
            r = res[h["name"]]
            if r["status"] in ("NOT_RUN", "ERROR"):
                m = re.search(r"Thread \d+: Checking harness %s\.\.\.(.*?)(?=Thread \d+: Checking harness|\Z)" % re.escape(h["fq"]), text, flags=re.S)
                seg = m.group(1) if m else ""
                if re.search(r"timed out|Timeout", seg) or re.search(r"timed out", text) and h["fq"] in text:
                    r["status"] = "TIMEOUT"
                r["detail"] = (seg or text)[-600:]
    else:
        res = parse_output(text, hs)
    for h in hs:
        r = res[h["name"]]
        r["slot"] = slot
        if r["status"] in ("SUCCESS", "FAILED"):
            r["functions"] = encoded_functions(slot, h)
            ph = harness_meta(slot, h)
            if ph:
                r["unwind"] = ph["attributes"].get("unwind_value")
                r["stubs_applied"] = [x["original"].replace(" ", "") + " -> " + x["replacement"].replace(" ", "") for x in ph["attributes"].get("stubs", [])]
    for r in res.values():
        r["group_rc"] = p.returncode
        r["group_wall_s"] = round(wall, 1)
        r["log"] = log_path
    return res


def shquote(s):
    return "'" + s.replace("'", "'\\''") + "'"


CHECK_RE = re.compile(r"^Check (\d+): (\S+)\s*$")


def parse_output(text, hs):
    """Split the cargo-kani output per harness and extract verdict + solver statistics."""
    res = {}
    by_fq = {h["fq"]: h for h in hs}
    parts = re.split(r"^Checking harness (\S+?)\.\.\.\s*$", text, flags=re.M)
    pre = parts[0]
    compile_failed = ("error: could not compile" in pre) or ("error[E" in pre) or ("internal compiler error" in pre) \
        or ("Kani is unable to" in pre) or ("error: " in pre and "Checking harness" not in text)
    secs = {}
    for i in range(1, len(parts), 2):
        secs[parts[i]] = parts[i + 1]
    for fq, h in by_fq.items():
        r = {"harness": h["name"], "status": "NOT_RUN", "failed_checks": [], "unsat_covers": [],
             "covers_total": 0, "covers_sat": 0, "checks_total": 0, "checks_failed": 0, "undetermined": 0,
             "vccs": 0, "vccs_remaining": 0, "steps": 0, "variables": 0, "clauses": 0, "sat_calls": 0,
             "solver_s": 0.0, "symex_s": 0.0, "verification_s": 0.0, "functions": [], "stubs_applied": []}
        sec = secs.get(fq)
        if sec is None:
            r["status"] = "COMPILE_ERROR" if compile_failed else "NOT_RUN"
            r["detail"] = last_error_lines(pre if compile_failed else text)
            res[h["name"]] = r
            continue
        m = re.search(r"VERIFICATION:- (SUCCESSFUL|FAILED)", sec)
        r["status"] = {"SUCCESSFUL": "SUCCESS", "FAILED": "FAILED"}.get(m.group(1), "ERROR") if m else "ERROR"
        if not m:
            if "timed out" in sec.lower() or "Timeout" in sec:
                r["status"] = "TIMEOUT"
            elif "out of memory" in sec.lower() or "std::bad_alloc" in sec or "Killed" in sec or "CBMC failed with status 6" in sec:
                r["status"] = "OOM"
            r["detail"] = last_error_lines(sec)
        if re.search(r"CBMC timed out|timed out after", sec):
            r["status"] = "TIMEOUT"
        if "std::bad_alloc" in sec or "Out of memory" in sec or "memory exhausted" in sec.lower() or "CBMC failed with status 6" in sec:
            r["status"] = "OOM"
        m = re.search(r"\*\* (\d+) of (\d+) failed(?: \((\d+) undetermined\))?", sec)
        if m:
            r["checks_failed"], r["checks_total"] = int(m.group(1)), int(m.group(2))
        r["undetermined"] = len(re.findall(r"- Status: UNDETERMINED", sec))
        m = re.search(r"\*\* (\d+) of (\d+) cover properties satisfied", sec)
        if m:
            r["covers_sat"], r["covers_total"] = int(m.group(1)), int(m.group(2))
        r["failed_checks"] = [x.strip() for x in re.findall(r"^Failed Checks: (.*)$", sec, flags=re.M)]
        # unsatisfied covers and function inventory from the per-check listing
        funcs = set()
        for blk in re.split(r"\n(?=Check \d+: )", sec):
            mm = CHECK_RE.match(blk.split("\n", 1)[0])
            if not mm:
                continue
            loc = re.search(r"- Location: (\S+?):\d+:\d+ in function (\S+)", blk)
            st = re.search(r"- Status: (\S+)", blk)
            if loc:
                path, fn_ = loc.group(1), loc.group(2)
                if not ("verif/harness" in path or path.startswith("/root") or "/.cargo/" in path
                        or "/.rustup/" in path or "kani" in path.split("/")[0:3].__str__()):
                    funcs.add(fn_)
            if ".cover." in mm.group(2) and st and st.group(1) not in ("SATISFIED",):
                d = re.search(r'- Description: "(.*)"', blk)
                r["unsat_covers"].append((d.group(1) if d else mm.group(2)) + f" [{st.group(1)}]")
        r["functions"] = sorted(funcs)
        for k, pat in (("steps", r"size of program expression: (\d+) steps"),
                       ("vccs", r"Generated (\d+) VCC"), ("vccs_remaining", r"VCC\(s\), (\d+) remaining")):
            m = re.search(pat, sec)
            if m:
                r[k] = int(m.group(1))
        vc = re.findall(r"^(\d+) variables, (\d+) clauses", sec, flags=re.M)
        if vc:
            r["variables"], r["clauses"] = max(int(a) for a, _ in vc), max(int(b) for _, b in vc)
        r["sat_calls"] = len(re.findall(r"SAT checker: instance is", sec)) + len(re.findall(r"SAT checker inconsistent", sec))
        r["solver_s"] = round(sum(float(x) for x in re.findall(r"Runtime Solver: ([0-9.e+-]+)s", sec)), 3)
        m = re.search(r"Runtime Symex: ([0-9.e+-]+)s", sec)
        if m:
            r["symex_s"] = round(float(m.group(1)), 3)
        m = re.search(r"Verification Time: ([0-9.e+-]+)s", sec)
        if m:
            r["verification_s"] = round(float(m.group(1)), 2)
        res[h["name"]] = r
    # which stubs the compiler really applied (listed once per harness by kani-compiler)
    return res


LOCAL_PREFIXES = ("vhost_user::", "vhost_kern::", "backend::", "vdpa::", "net::", "vsock::", "handler::", "event_loop::",
                  "bitmap::", "vring::", "vhost::", "vhost_user_backend::", "<")


def encoded_functions(slot, h):
    """Functions of the repository that are part of the GOTO program CBMC decided for this harness
    (Kani prunes to what is reachable from the harness)."""
    import glob
    pkgdir = h["pkg"].replace("-", "_")
    cands = glob.glob(os.path.join(slot_dir(slot), "kani", "*", "debug", "build", h["pkg"], "*", "out",
                                   f"*{len(h['name'])}{h['name']}.out"))
    cands = [c for c in cands if not c.endswith(".symtab.out")]
    if not cands:
        return []
    f = max(cands, key=os.path.getmtime)
    try:
        out = subprocess.run(["goto-instrument", "--list-goto-functions", f], capture_output=True, text=True, timeout=120).stdout
    except Exception:
        return []
    fns = set()
    for l in out.split("\n"):
        m = re.match(r"^(\S.*?) /\* (\S+?)(, body not available)? \*/$", l)
        if not m or m.group(3):
            continue
        name = m.group(1)
        if "verif::" in name or name.startswith(("kani::", "std::", "core::", "alloc::")):
            continue
        if name.startswith(LOCAL_PREFIXES) and re.search(r"(vhost_user|vhost_kern|handler|event_loop|bitmap|vring|backend|vhost)::", name):
            if name.startswith("<") and not re.search(r"(vhost_user::|vhost_kern::|handler::|event_loop::|bitmap::|vring::|backend::|vhost::)", name):
                continue
            fns.add(name)
    return sorted(fns)


def harness_meta(slot, h):
    """Kani's own metadata for the harness as compiled in this slot: unwind bound, stubs really registered."""
    import glob
    best = None
    for f in glob.glob(os.path.join(slot_dir(slot), "kani", "*", "debug", "build", h["pkg"], "*", "out", "*.kani-metadata.json")):
        try:
            m = json.load(open(f))
        except Exception:
            continue
        for ph in m.get("proof_harnesses", []):
            if ph.get("pretty_name") == h["fq"]:
                if best is None or os.path.getmtime(f) > best[0]:
                    best = (os.path.getmtime(f), ph)
    return best[1] if best else None


CBMC_FLAGS = ["--no-malloc-may-fail", "--no-undefined-shift-check", "--no-signed-overflow-check", "--nan-check",
              "--no-self-loops-to-assumptions", "--no-pointer-primitive-check", "--object-bits", "16",
              "--sat-solver", "cadical", "--slice-formula"]


def sat_stats(slot, h, timeout=150):
    """Kani's parallel mode hides CBMC's log, so for a sample of harnesses the instrumented GOTO binary Kani
    produced is decided once more by CBMC directly (same flags) to record the size of the SAT instances."""
    ph = harness_meta(slot, h)
    if not ph:
        return None
    goto = ph["goto_file"].replace(".symtab.out", ".out")
    if not os.path.exists(goto):
        return None
    cmd = ["cbmc"] + CBMC_FLAGS + ["--verbosity", "9"] + (["--unwind", str(ph["attributes"]["unwind_value"])] if ph["attributes"].get("unwind_value") else []) + [goto]
    try:
        t0 = time.time()
        out = subprocess.run(["bash", "-c", "ulimit -v 16000000; exec timeout %d %s" % (timeout, " ".join(map(shquote, cmd)))],
                             capture_output=True, text=True).stdout
        wall = time.time() - t0
    except Exception:
        return None
    vc = re.findall(r"^(\d+) variables, (\d+) clauses", out, flags=re.M)
    if not vc:
        return None
    m1 = re.search(r"size of program expression: (\d+) steps", out)
    m2 = re.search(r"Generated (\d+) VCC\(s\), (\d+) remaining", out)
    m3 = re.search(r"Runtime Symex: ([0-9.e+-]+)s", out)
    return {"harness": h["name"], "program_steps": int(m1.group(1)) if m1 else 0,
            "vccs_generated": int(m2.group(1)) if m2 else 0, "vccs_after_simplification": int(m2.group(2)) if m2 else 0,
            "sat_variables": max(int(a) for a, _ in vc), "sat_clauses": max(int(b) for _, b in vc),
            "sat_queries": len(re.findall(r"SAT checker: instance is", out)),
            "solver_s": round(sum(float(x) for x in re.findall(r"Runtime Solver: ([0-9.e+-]+)s", out)), 3),
            "symex_s": round(float(m3.group(1)), 2) if m3 else 0.0, "cbmc_wall_s": round(wall, 1),
            "note": "instance sizes only; the verdict is Kani's (raw CBMC counts a satisfied cover witness as a failed property)"}


def last_error_lines(t):
    ls = [l for l in t.split("\n") if l.strip()]
    return "\n".join(ls[-12:])


def classify(h, r, known):
    """-> (verdict, labels). verdict in ok | known | violation | inconclusive"""
    if r["status"] in ("TIMEOUT", "OOM", "ERROR", "NOT_RUN", "COMPILE_ERROR"):
        return "inconclusive", [r["status"] + ": " + r.get("detail", "")[-400:]]
    unwind = [c for c in r["failed_checks"] if "unwinding assertion" in c]
    real = [c for c in r["failed_checks"] if "unwinding assertion" not in c]
    # a reachable construct Kani cannot model (foreign function without stub, inline asm, ...) is a limit of the
    # encoding, not a property violation: inconclusive unless a genuine assertion fails as well
    unsupported = [c for c in real if "not currently supported by Kani" in c or "is not supported by Kani" in c]
    real = [c for c in real if c not in unsupported]
    kf = [k for k in known if k.get("status") == "known" and k["harness"] == h["name"]]
    if r["status"] == "FAILED" and not r["failed_checks"] and r["undetermined"]:
        return "inconclusive", ["undetermined checks"]
    if real:
        unlisted = [c for c in real if not any(k["label"] in c for k in kf)]
        if unlisted:
            return "violation", unlisted
        if unwind:
            return "inconclusive", unwind
        return "known", real
    if unsupported:
        return "inconclusive", ["the code reaches a construct the encoder cannot model: " + "; ".join(unsupported[:3])]
    if unwind:
        return "inconclusive", ["unwinding bound too small: " + "; ".join(unwind[:3])]
    if r["status"] == "FAILED":
        return "inconclusive", ["FAILED without failed-check lines"]
    if kf:
        # a finding listed as known no longer fails: report, do not hide
        return "inconclusive", ["known finding no longer reproduces; update known_findings.json"]
    if r["undetermined"]:
        return "inconclusive", [f"{r['undetermined']} undetermined checks"]
    if r["covers_total"] and r["covers_sat"] != r["covers_total"]:
        return "inconclusive", ["vacuity: unsatisfied cover(s): " + "; ".join(r["unsat_covers"][:5])]
    return "ok", []


# ------------------------------------------------------- counterexample replay
def extract_playback(text):
    m = re.search(r"```\n(.*?)```", text, flags=re.S)
    return m.group(1) if m else None


def replay_violation(prop, h, r, labels, slot=0):
    """Re-run with concrete playback; for stub-free harnesses execute the counterexample natively."""
    os.makedirs(REPLAY_DIR, exist_ok=True)
    log = os.path.join(WORK, "logs", f"{h['name']}.playback.log")
    res = run_group(slot, h["pkg"], [h], 24_000_000, log,
                    extra=["-Z", "concrete-playback", "--concrete-playback=print"], jobs=1)
    text = open(log, errors="replace").read()
    test_src = extract_playback(text)
    rec = {"property": prop, "harness": h["name"], "fq": h["fq"], "file": "harness/" + h["file"],
           "failed_checks": labels, "bound": h["bound"], "playback_test": test_src,
           "native_replay": "unavailable: harness runs over the stubbed ghost kernel" if not h["native"] else None,
           "how_to_replay": f"./vcheck.py --replay replays/{prop}-{h['name']}.json"}
    path = os.path.join(REPLAY_DIR, f"{prop}-{h['name']}.json")
    reproduced = None
    if h["native"] and test_src:
        reproduced, out = native_playback(h, test_src)
        rec["native_replay"] = "reproduced (test panics natively)" if reproduced else "NOT reproduced"
        rec["native_output_tail"] = out[-1500:]
    with open(path, "w") as f:
        json.dump(rec, f, indent=1)
    return path, reproduced


def native_playback(h, test_src):
    """Append Kani's generated unit test to a scratch copy of the harness file and run it natively
    (cargo kani playback = cargo test with kani::any() fed from the counterexample bytes)."""
    scratch = os.path.join(WORK, "playback_harness")
    if os.path.exists(scratch):
        shutil.rmtree(scratch)
    shutil.copytree(HARNESS_DIR, os.path.join(scratch, "harness"))
    with open(os.path.join(scratch, "harness", h["file"]), "a") as f:
        f.write("\n" + test_src + "\n")
    m = re.search(r"fn (kani_concrete_playback_\w+)", test_src)
    tname = m.group(1)
    e = env_for()
    e["VHOST_VERIF_DIR"] = scratch
    e["CARGO_TARGET_DIR"] = os.path.join(WORK, "playback_target")
    cmd = ["cargo", "kani", "playback", "-Z", "concrete-playback", "-p", h["pkg"], "--features", PKG_FEATURES[h["pkg"]],
           "--", tname, "--exact" if False else "--nocapture"]
    p = subprocess.run(cmd, cwd=REPO, env=e, stdout=subprocess.PIPE, stderr=subprocess.STDOUT, text=True, timeout=900)
    out = p.stdout
    failed = ("test result: FAILED" in out) or ("panicked at" in out)
    ran = re.search(r"running [1-9]\d* test", out) is not None
    return (failed and ran), out


# ------------------------------------------------------------------ evidence
def write_evidence(prop, tier, seed, hs, results, verdicts, wall, violations, known_lines):
    os.makedirs(EVIDENCE_DIR, exist_ok=True)
    ok = [h for h in hs if verdicts[h["name"]][0] in ("ok", "known")]
    samples = []
    funcs = set()
    tot = {"cbmc_checks": 0, "vccs": 0, "sat_calls": 0, "solver_s": 0.0, "symex_s": 0.0, "covers": 0, "variables_max": 0,
           "clauses_max": 0}
    for h in hs:
        r = results[h["name"]]
        funcs.update(r["functions"])
        tot["cbmc_checks"] += r["checks_total"]
        tot["vccs"] += r["vccs"]
        tot["sat_calls"] += r["sat_calls"]
        tot["solver_s"] += r["solver_s"]
        tot["symex_s"] += r["symex_s"]
        tot["covers"] += r["covers_sat"]
        tot["variables_max"] = max(tot["variables_max"], r["variables"])
        tot["clauses_max"] = max(tot["clauses_max"], r["clauses"])
        samples.append({"harness": h["fq"], "source": f"harness/{h['file']}:{h['line']}", "bound": h["bound"],
                        "stubs": h["stubs"], "verdict": verdicts[h["name"]][0], "status": r["status"],
                        "cbmc_checks": r["checks_total"], "covers": f"{r['covers_sat']}/{r['covers_total']}",
                        "program_steps": r["steps"], "vccs": r["vccs"], "sat_vars": r["variables"],
                        "sat_clauses": r["clauses"], "verification_s": r["verification_s"], "unwind": r.get("unwind"),
                        "stubs_applied": r.get("stubs_applied", []), "reused_from_cache": bool(r.get("from_cache"))})
    # SAT-level statistics for a sample (the cheapest harnesses): CBMC run directly on Kani's GOTO binaries
    sat_sample = []
    cands = sorted([h for h in ok if results[h["name"]]["status"] == "SUCCESS" and results[h["name"]].get("slot") is not None],
                   key=lambda h: results[h["name"]]["verification_s"])[:3]
    if cands and not os.environ.get("VERIF_NO_SAT_SAMPLE"):
        with cf.ThreadPoolExecutor(max_workers=3) as ex:
            for st in ex.map(lambda h: sat_stats(results[h["name"]]["slot"], h), cands):
                if st:
                    sat_sample.append(st)
    # keep the sample with the result cache: a run answered from the cache (same tree) reports the sample that
    # was taken when those results were produced
    sp = os.path.join(WORK, "sat_samples.json")
    try:
        store = json.load(open(sp))
    except Exception:
        store = {}
    key = f"{tree_hash()}:{prop}:{tier}"
    if sat_sample:
        store = {k: v for k, v in store.items() if k.startswith(tree_hash())}
        store[key] = sat_sample
        json.dump(store, open(sp, "w"))
    elif key in store:
        sat_sample = [dict(x, reused_from_cache=True) for x in store[key]]
    nontrivial = len({h["name"] for h in ok if results[h["name"]]["checks_total"] > 0
                      and results[h["name"]]["covers_sat"] == results[h["name"]]["covers_total"]})
    ev = {
        "property_id": prop, "tier": tier, "seed": seed, "level": "model_checking",
        "coverage": {
            "evaluations": len(hs),
            "distinct_nontrivial": nontrivial,
            "rule": "one evaluation = one Kani proof harness (symbolic inputs, bounded by its #[kani::unwind] and the "
                    "stated input bound) compiled from /repo's working tree and decided by CBMC+CaDiCaL; it counts as "
                    "distinct & non-trivial when CBMC checked >0 properties, every kani::cover! reachability witness "
                    "was SATISFIED, no unwinding assertion failed and nothing was UNDETERMINED",
            "samples": samples,
            "exhaustive": False,
            "cbmc_properties_decided": tot["cbmc_checks"],
            "sat_statistics_sample": sat_sample,
            "sat_queries_in_sample": sum(x["sat_queries"] for x in sat_sample),
            "solver_time_in_sample_s": round(sum(x["solver_s"] for x in sat_sample), 3),
            "verification_time_total_s": round(sum(results[h["name"]]["verification_s"] for h in hs), 1),
            "cover_witnesses_satisfied": tot["covers"],
            "results_reused_from_same_tree_cache": sum(1 for h in hs if results[h["name"]].get("from_cache")),
            "functions_encoded_from_repo": sorted(funcs),
            "functions_encoded_count": len(funcs),
            "repo_head": git_head(),
            "repo_dirty_files": git_dirty(),
            "known_findings_reported": known_lines,
            "explanation": "bounded model checking of the real functions (Kani 0.68 -> CBMC 6.11 -> CaDiCaL); "
                           "UNSAT = assertion holds for every input within the stated bound; outside the bound nothing is claimed",
        },
        "assumptions": sorted({a for h in hs for a in assumptions_for(h)}),
        "wall_s": round(wall, 1),
        "violations": violations,
    }
    with open(os.path.join(EVIDENCE_DIR, f"{prop}.json"), "w") as f:
        json.dump(ev, f, indent=1)
    if tier == "thorough":
        # evidence/<id>.json is rewritten by every run; keep the last thorough run next to it as well
        os.makedirs(os.path.join(EVIDENCE_DIR, "thorough"), exist_ok=True)
        with open(os.path.join(EVIDENCE_DIR, "thorough", f"{prop}.json"), "w") as f:
            json.dump(ev, f, indent=1)


def assumptions_for(h):
    a = ["Kani 0.68 / CBMC 6.11 model of Rust (dev profile, overflow checks on); allocation never fails",
         "oracle = hand transcription of the vhost-user spec in harness/spec.rs (literal numbers only)"]
    if h["stubs"]:
        a.append("environment stubs (contract of the OS boundary): " + h["stubs"])
    if h["bound"]:
        a.append(f"{h['name']}: {h['bound']}")
    return a


def git_head():
    try:
        return subprocess.run(["git", "-C", REPO, "rev-parse", "--short", "HEAD"], capture_output=True, text=True).stdout.strip()
    except Exception:
        return "?"


def git_dirty():
    try:
        o = subprocess.run(["git", "-C", REPO, "status", "--short"], capture_output=True, text=True).stdout.strip()
        return [l for l in o.split("\n") if l][:20]
    except Exception:
        return []


# ---------------------------------------------------------------------- main
TIMES = {}


def times_get(n):
    global TIMES
    if not TIMES:
        tf = os.path.join(WORK, "times.json")
        if os.path.exists(tf):
            try:
                TIMES.update(json.load(open(tf)))
            except Exception:
                pass
    return TIMES.get(n, 30.0)


def tree_hash():
    """Content hash of everything a verdict depends on: the repository's crates as they are on disk now
    (tracked or not), the lock file, the harness sources and this driver."""
    hsh = hashlib.sha256()
    roots = [os.path.join(REPO, "vhost"), os.path.join(REPO, "vhost-user-backend"), HARNESS_DIR]
    files = [os.path.join(REPO, "Cargo.toml"), os.path.join(REPO, "Cargo.lock"), os.path.abspath(__file__),
             os.path.join(WORK, "uapi_table.rs")]
    for root in roots:
        for dp, dn, fn in os.walk(root):
            dn[:] = sorted(d for d in dn if d not in ("target", ".git"))
            for f in sorted(fn):
                files.append(os.path.join(dp, f))
    for f in files:
        try:
            hsh.update(f.encode())
            hsh.update(open(f, "rb").read())
        except Exception:
            pass
    return hsh.hexdigest()[:20]


def load_cache():
    f = os.path.join(WORK, "result_cache.json")
    if os.path.exists(f):
        try:
            return json.load(open(f))
        except Exception:
            return {}
    return {}


def save_cache(cache, tree):
    # keep only entries of the current tree (the cache exists to share results between the
    # per-property commands run back to back on one tree, not to remember history)
    keep = {k: v for k, v in cache.items() if k.startswith(tree + ":")}
    json.dump(keep, open(os.path.join(WORK, "result_cache.json"), "w"))


def load_known():
    if os.path.exists(KNOWN):
        return json.load(open(KNOWN))["findings"]
    return []


def gen_uapi():
    """C19 oracle: request numbers and struct layouts from the installed <linux/vhost.h>, regenerated each run."""
    os.makedirs(WORK, exist_ok=True)
    exe = os.path.join(WORK, "uapi_gen")
    p = subprocess.run(["gcc", "-O0", "-o", exe, os.path.join(VERIF, "uapi", "gen.c")], capture_output=True, text=True)
    if p.returncode != 0:
        raise SystemExit("uapi/gen.c does not compile:\n" + p.stderr)
    out = subprocess.run([exe], capture_output=True, text=True).stdout
    for tgt in {os.path.join(WORK, "uapi_table.rs"), os.path.join(VERIF, ".work", "uapi_table.rs")}:
        os.makedirs(os.path.dirname(tgt), exist_ok=True)
        if not os.path.exists(tgt) or open(tgt).read() != out:
            open(tgt, "w").write(out)


def setup(nslots):
    """Build dependencies once (slot 0), then clone the target dir for the other slots."""
    os.makedirs(os.path.join(WORK, "logs"), exist_ok=True)
    gen_uapi()
    for pkg, probe in (("vhost", "vhost_user::message::verif::c20_memory"), ("vhost-user-backend", None)):
        cmd = ["cargo", "kani", "-p", pkg, "--features", PKG_FEATURES[pkg], "--target-dir", slot_dir(0), "-Z", "stubbing",
               "--only-codegen"]
        p = subprocess.run(cmd, cwd=REPO, env=env_for(), stdout=subprocess.PIPE, stderr=subprocess.STDOUT, text=True)
        print(f"[setup] codegen {pkg}: rc={p.returncode}")
        if p.returncode != 0:
            print(p.stdout[-3000:])
            return 1
    for k in range(1, nslots):
        if not os.path.exists(slot_dir(k)):
            subprocess.run(["cp", "-a", slot_dir(0), slot_dir(k)], check=True)
    print(f"[setup] {nslots} slots ready")
    return 0


def main():
    ap = argparse.ArgumentParser()
    ap.add_argument("prop", nargs="?")
    ap.add_argument("--tier", default=os.environ.get("VERIF_TIER", "quick"))
    ap.add_argument("--harness", action="append")
    ap.add_argument("--jobs", type=int, default=int(os.environ.get("VERIF_JOBS", "12")))
    ap.add_argument("--mem-gb", type=int, default=int(os.environ.get("VERIF_MEM_GB", "14")))
    ap.add_argument("--list", action="store_true")
    ap.add_argument("--setup", action="store_true")
    ap.add_argument("--no-replay", action="store_true")
    ap.add_argument("--no-cache", action="store_true", default=os.environ.get("VERIF_NO_CACHE") == "1")
    a = ap.parse_args()
    seed = int(os.environ.get("VERIF_SEED", "0"))
    all_h = discover()
    if a.list:
        for h in all_h:
            print(f"{h['name']:45s} {h['tier']:8s} {','.join(h['props']):16s} {h['pkg']:20s} {h['bound']}")
        return 0
    if a.setup:
        return setup(a.jobs)
    if not a.prop:
        ap.error("property id required")
    prop = a.prop
    os.makedirs(os.path.join(WORK, "logs"), exist_ok=True)
    gen_uapi()
    hs = [h for h in all_h if prop in h["props"]
          and TIERS["thorough" if prop in h["thorough_for"] else h["tier"]] <= TIERS[a.tier]]
    if a.harness:
        hs = [h for h in hs if h["name"] in a.harness]
    if not hs:
        print(f"no harness registered for {prop} in tier {a.tier}")
        return 2
    known = [k for k in load_known() if k["property"] == prop]
    # ---- schedule: one cargo-kani process per (package, reach-check mode); Kani's own -j pool inside
    keyf = lambda h: (h["pkg"], h["reach"], h["mem"])
    keys = sorted({keyf(h) for h in hs})
    t0 = time.time()
    results = {}
    mem_kb = a.mem_gb * 1024 * 1024
    cache = load_cache()
    tree = tree_hash()
    todo = []
    reused = 0
    for h in hs:
        ck = f"{tree}:{h['fq']}:{h['reach']}:{h['timeout']}"
        if not a.no_cache and ck in cache and cache[ck]["status"] in ("SUCCESS", "FAILED"):
            results[h["name"]] = dict(cache[ck], from_cache=True)
            reused += 1
        else:
            todo.append(h)
    keys = sorted({keyf(h) for h in todo})
    share = {k: max(1, a.jobs * len([h for h in todo if keyf(h) == k]) // max(1, len(todo))) for k in keys}
    with cf.ThreadPoolExecutor(max_workers=max(1, len(keys))) as ex:
        futs = []
        for slot, k in enumerate(keys):
            sub = sorted([h for h in todo if keyf(h) == k], key=lambda h: -times_get(h["name"]))
            log = os.path.join(WORK, "logs", f"{prop}.{a.tier}.{k[0]}.{k[1]}.{k[2]}.log")
            mk = (k[2] * 1024 * 1024) if k[2] else mem_kb
            # memory-hungry harnesses run a few at a time
            jb = share[k] if not k[2] else max(1, min(share[k], 56 // k[2]))
            futs.append(ex.submit(run_group_resilient, slot, k[0], sub, mk, log, jb, all_h))
        for f in futs:
            results.update(f.result())
    for h in todo:
        r = results.get(h["name"])
        if r and r["status"] in ("SUCCESS", "FAILED"):
            cache[f"{tree}:{h['fq']}:{h['reach']}:{h['timeout']}"] = r
    save_cache(cache, tree)
    for h in hs:
        if h["name"] not in results:
            results[h["name"]] = {"harness": h["name"], "status": "NOT_RUN", "failed_checks": [], "unsat_covers": [],
                                  "covers_total": 0, "covers_sat": 0, "checks_total": 0, "checks_failed": 0,
                                  "undetermined": 0, "vccs": 0, "vccs_remaining": 0, "steps": 0, "variables": 0,
                                  "clauses": 0, "sat_calls": 0, "solver_s": 0.0, "symex_s": 0.0,
                                  "verification_s": 0.0, "functions": []}
    for n, r in results.items():
        if r["status"] in ("SUCCESS", "FAILED"):
            TIMES[n] = max(1.0, r["verification_s"])
    json.dump(TIMES, open(os.path.join(WORK, "times.json"), "w"))
    verdicts = {h["name"]: classify(h, results[h["name"]], known) for h in hs}
    rc = 0
    nviol = 0
    known_lines = []
    out_lines = []
    for h in hs:
        v, labels = verdicts[h["name"]]
        r = results[h["name"]]
        print(f"[{prop}] {h['name']:45s} {v:12s} {r['status']:8s} checks={r['checks_total']:<5d} "
              f"covers={r['covers_sat']}/{r['covers_total']} t={r['verification_s']}s")
        if v == "known":
            for k in known:
                if k["harness"] == h["name"] and k.get("status") == "known":
                    line = f"KNOWN-FINDING: property={prop} {k['what']}"
                    known_lines.append(line)
        elif v == "violation":
            nviol += 1
            path, reproduced = (os.path.join(WORK, "logs", os.path.basename(r.get("log", ""))), None)
            if not a.no_replay:
                path, reproduced = replay_violation(prop, h, r, labels)
            if reproduced is False:
                print(f"[{prop}] {h['name']}: counterexample did NOT reproduce natively -> inconclusive (model/oracle bug?)")
                print("   failed: " + "; ".join(labels[:4]))
                rc = max(rc, 2)
                nviol -= 1
            else:
                out_lines.append(f"VIOLATION property={prop} replay={path}")
                print("   failed: " + "; ".join(labels[:6]))
                rc = 1 if rc != 1 else rc
        elif v == "inconclusive":
            print("   inconclusive: " + " | ".join(l[:300] for l in labels[:3]))
            if rc == 0:
                rc = 2
    if any(v[0] == "violation" for v in verdicts.values()) and out_lines:
        rc = 1
    wall = time.time() - t0
    for l in dict.fromkeys(known_lines):
        print(l)
    for l in dict.fromkeys(out_lines):
        print(l)
    if not a.harness and not os.environ.get("VERIF_NO_EVIDENCE"):
        write_evidence(prop, a.tier, seed, hs, results, verdicts, wall, nviol, list(dict.fromkeys(known_lines)))
    print(f"[{prop}] tier={a.tier} harnesses={len(hs)} wall={wall:.0f}s exit={rc}")
    return rc


if __name__ == "__main__":
    sys.exit(main())
