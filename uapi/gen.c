/* C19 oracle generator: prints request numbers, struct sizes and field offsets of the Linux vhost UAPI
 * (as installed in /usr/include/linux) as Rust constants.  Compiled and run by vcheck.py on every run. */
#include <linux/vhost.h>
#include <stddef.h>
#include <stdio.h>
#define R(n) printf("pub const U_%s: u64 = 0x%lx;\n", #n, (unsigned long)(n))
#define S(n, t) printf("pub const USZ_%s: usize = %zu;\n", #n, sizeof(t))
#define O(n, t, f) printf("pub const UOFF_%s: usize = %zu;\n", #n, offsetof(t, f))
int main(void) {
  R(VHOST_GET_FEATURES); R(VHOST_SET_FEATURES); R(VHOST_SET_OWNER); R(VHOST_RESET_OWNER);
  R(VHOST_SET_MEM_TABLE); R(VHOST_SET_LOG_BASE); R(VHOST_SET_LOG_FD); R(VHOST_SET_VRING_NUM);
  R(VHOST_SET_VRING_ADDR); R(VHOST_SET_VRING_BASE); R(VHOST_GET_VRING_BASE); R(VHOST_SET_VRING_KICK);
  R(VHOST_SET_VRING_CALL); R(VHOST_SET_VRING_ERR); R(VHOST_SET_BACKEND_FEATURES); R(VHOST_GET_BACKEND_FEATURES);
  R(VHOST_NET_SET_BACKEND); R(VHOST_VSOCK_SET_GUEST_CID); R(VHOST_VSOCK_SET_RUNNING);
  R(VHOST_VDPA_GET_DEVICE_ID); R(VHOST_VDPA_GET_STATUS); R(VHOST_VDPA_SET_STATUS); R(VHOST_VDPA_GET_CONFIG);
  R(VHOST_VDPA_SET_CONFIG); R(VHOST_VDPA_SET_VRING_ENABLE); R(VHOST_VDPA_GET_VRING_NUM);
  R(VHOST_VDPA_SET_CONFIG_CALL); R(VHOST_VDPA_GET_IOVA_RANGE); R(VHOST_VDPA_GET_CONFIG_SIZE);
  R(VHOST_VDPA_GET_VQS_COUNT); R(VHOST_VDPA_GET_GROUP_NUM); R(VHOST_VDPA_GET_AS_NUM);
  R(VHOST_VDPA_GET_VRING_GROUP); R(VHOST_VDPA_SET_GROUP_ASID); R(VHOST_VDPA_SUSPEND);
  S(VRING_STATE, struct vhost_vring_state); O(VRING_STATE_INDEX, struct vhost_vring_state, index); O(VRING_STATE_NUM, struct vhost_vring_state, num);
  S(VRING_FILE, struct vhost_vring_file); O(VRING_FILE_INDEX, struct vhost_vring_file, index); O(VRING_FILE_FD, struct vhost_vring_file, fd);
  S(VRING_ADDR, struct vhost_vring_addr); O(VRING_ADDR_INDEX, struct vhost_vring_addr, index); O(VRING_ADDR_FLAGS, struct vhost_vring_addr, flags);
  O(VRING_ADDR_DESC, struct vhost_vring_addr, desc_user_addr); O(VRING_ADDR_USED, struct vhost_vring_addr, used_user_addr);
  O(VRING_ADDR_AVAIL, struct vhost_vring_addr, avail_user_addr); O(VRING_ADDR_LOG, struct vhost_vring_addr, log_guest_addr);
  S(MEMORY, struct vhost_memory); O(MEMORY_NREGIONS, struct vhost_memory, nregions); O(MEMORY_REGIONS, struct vhost_memory, regions);
  S(MEMORY_REGION, struct vhost_memory_region); O(MEMORY_REGION_GPA, struct vhost_memory_region, guest_phys_addr);
  O(MEMORY_REGION_SIZE, struct vhost_memory_region, memory_size); O(MEMORY_REGION_UADDR, struct vhost_memory_region, userspace_addr);
  S(MSG, struct vhost_msg); O(MSG_TYPE, struct vhost_msg, type); O(MSG_IOTLB, struct vhost_msg, iotlb);
  S(MSG_V2, struct vhost_msg_v2); O(MSG_V2_TYPE, struct vhost_msg_v2, type); O(MSG_V2_IOTLB, struct vhost_msg_v2, iotlb);
  S(IOTLB_MSG, struct vhost_iotlb_msg); O(IOTLB_IOVA, struct vhost_iotlb_msg, iova); O(IOTLB_SIZE, struct vhost_iotlb_msg, size);
  O(IOTLB_UADDR, struct vhost_iotlb_msg, uaddr); O(IOTLB_PERM, struct vhost_iotlb_msg, perm); O(IOTLB_TYPE, struct vhost_iotlb_msg, type);
  S(VDPA_CONFIG, struct vhost_vdpa_config); O(VDPA_CONFIG_OFF, struct vhost_vdpa_config, off); O(VDPA_CONFIG_LEN, struct vhost_vdpa_config, len);
  O(VDPA_CONFIG_BUF, struct vhost_vdpa_config, buf);
  S(VDPA_IOVA_RANGE, struct vhost_vdpa_iova_range); O(VDPA_IOVA_FIRST, struct vhost_vdpa_iova_range, first); O(VDPA_IOVA_LAST, struct vhost_vdpa_iova_range, last);
  printf("pub const U_VHOST_IOTLB_MSG: u32 = %d;\npub const U_VHOST_IOTLB_MSG_V2: u32 = %d;\n", VHOST_IOTLB_MSG, VHOST_IOTLB_MSG_V2);
  printf("pub const U_BACKEND_F_IOTLB_MSG_V2_BIT: u64 = %d;\n", VHOST_BACKEND_F_IOTLB_MSG_V2);
  printf("pub const U_IOTLB_UPDATE: u8 = %d;\npub const U_IOTLB_INVALIDATE: u8 = %d;\npub const U_ACCESS_RO: u8 = %d;\npub const U_ACCESS_RW: u8 = %d;\n", VHOST_IOTLB_UPDATE, VHOST_IOTLB_INVALIDATE, VHOST_ACCESS_RO, VHOST_ACCESS_RW);
  return 0;
}
