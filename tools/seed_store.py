#!/usr/bin/env python3
"""usage: seed_store.py <worktree> <a|b> <seed id> <property> <demo dest in tree> <caught_by> <needs ...>
Copies a confirmed seeded change from a scratch worktree to /verif/seeded/<seed id>/ and writes meta.json.
Extra files next to the patch (NOTES.md, demo wiring, C helpers) are copied as they are."""
import json, os, shutil, sys
wt, sub, sid, prop, dest, caught = sys.argv[1:7]
needs = " ".join(sys.argv[7:])
src = os.path.join(wt, "SEED", sub)
dst = os.path.join("/verif/seeded", sid)
os.makedirs(dst, exist_ok=True)
files = sorted(os.listdir(src))
for f in files:
    shutil.copy(os.path.join(src, f), os.path.join(dst, f))
meta_p = os.path.join(dst, "meta.json")
meta = json.load(open(meta_p)) if os.path.exists(meta_p) else {}
meta.update({
    "id": sid, "property": prop, "patch": "patch.diff",
    "demonstration": [f for f in files if f not in ("patch.diff", "NOTES.md")],
    "demonstration_dest": dest,
    "needs_to_manifest": needs,
    "confirmed": "scratch worktree of /repo (HEAD at the time of confirmation): the existing workspace test suite passes with "
                 "the change applied; the demonstration fails with the change and passes without it "
                 "(tools/seed_confirm.sh or the equivalent manual steps, see confirm_log)",
    "caught_by": caught,
})
json.dump(meta, open(meta_p, "w"), indent=1)
print("stored", dst)
