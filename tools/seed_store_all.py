#!/usr/bin/env python3
"""Copies every confirmed seeded change from its scratch worktree (/tmp/wt_cNN/SEED/{a,b}) into /verif/seeded/<id>/
and writes meta.json (property, what it needs to manifest, how it was confirmed, which check caught it).
Run while the scratch worktrees still exist; `seeded/results.json` (maintained by hand from the seed runs) supplies
the detection results."""
import json, os, re, shutil, glob
DEST = {  # where the demonstration goes in the tree and how it is run
 "C11": ("vhost-user-backend/src/{demo} (+ demo_wiring.diff on lib.rs)", "cargo test -p vhost-user-backend --offline --lib {stem}"),
 "C15": ("vhost-user-backend/src/{demo} (+ demo_wiring.diff on lib.rs)", "cargo test -p vhost-user-backend --offline --lib {stem}"),
 "C17": ("vhost-user-backend/tests/{demo}", "cargo test -p vhost-user-backend --offline --test {stem}"),
 "C06": ("vhost-user-backend/tests/{demo}", "cargo test -p vhost-user-backend --offline --test {stem}"),
 "C12": ("vhost-user-backend/tests/{demo}", "cargo test -p vhost-user-backend --offline --test {stem}"),
 "C13": ("vhost-user-backend/tests/{demo}", "cargo test -p vhost-user-backend --offline --test {stem}"),
 "C14": ("vhost-user-backend/tests/{demo}", "cargo test -p vhost-user-backend --offline --test {stem}"),
 "C19": ("vhost/tests/{demo}", "cargo test -p vhost --features vhost-kern,vhost-vdpa,vhost-net,vhost-vsock --offline --test {stem}"),
}
DEFAULT = ("vhost/tests/{demo}", "cargo test -p vhost --features vhost-user-frontend,vhost-user-backend --offline --test {stem}")
results = json.load(open("/verif/seeded/results.json")) if os.path.exists("/verif/seeded/results.json") else {}
for wt in sorted(glob.glob("/tmp/wt_c??") + glob.glob("/tmp/wt3_c??") + glob.glob("/tmp/wt4_c??")):
    prop = "C" + wt[-2:]
    rnd = "3" if "/wt3_" in wt else ("4" if "/wt4_" in wt else "")
    for sub in ("a", "b"):
        src = f"{wt}/SEED/{sub}"
        if not os.path.isdir(src): continue
        sid = f"{prop}-{sub}{rnd}"
        dst = f"/verif/seeded/{sid}"
        os.makedirs(dst, exist_ok=True)
        files = sorted(os.listdir(src))
        for f in files: shutil.copy(os.path.join(src, f), os.path.join(dst, f))
        notes = open(os.path.join(src, "NOTES.md")).read() if "NOTES.md" in files else ""
        title = notes.splitlines()[0].lstrip("# ").strip() if notes else ""
        m = re.search(r"^##+ [^\n]*(needed|manifest|When it shows)[^\n]*\n(.*?)(?=^##+ )", notes, re.S | re.M | re.I)
        needs = re.sub(r"\s+\n", "\n", m.group(2)).strip() if m else ""
        demos = [f for f in files if f.endswith(".rs")]
        demo = demos[0] if demos else ""
        d, c = DEST.get(prop, DEFAULT)
        mcmd = re.search(r"cargo test -p ([a-z-]+) [^`\n]*--(?:test|lib) (\w+)", notes)
        if mcmd and rnd:
            d, c = mcmd.group(1) + "/tests/{demo}", mcmd.group(0).replace("<demo>", "{stem}").replace("<name>", "{stem}")
        meta = {
            "id": sid, "property": prop, "summary": title, "patch": "patch.diff",
            "demonstration": [f for f in files if f not in ("patch.diff", "NOTES.md")],
            "demonstration_dest": d.format(demo=demo), "demonstration_cmd": c.format(stem=demo[:-3]),
            "needs_to_manifest": needs or "see NOTES.md",
            "confirmed": ("in the scratch worktree " + wt + " at /repo HEAD 53f0a5b: `cargo test --workspace --offline` "
                          "(the 105 tests of the pinned suite: 80 + 19 + 6) passes with patch.diff applied; the demonstration fails with "
                          "the change and passes without it (tools/seed_confirm.sh, or the same three steps by hand for in-crate demos)"),
            "detection": results.get(sid, "pending"),
        }
        json.dump(meta, open(f"{dst}/meta.json", "w"), indent=1)
        print(sid, "needs" if needs else "NO-NEEDS", len(files), "files")
