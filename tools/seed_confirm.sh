#!/bin/bash
# usage: seed_confirm.sh <worktree> <seed subdir (a|b)> <demo file name> <dest path in tree> <package> [features]
# Confirms in the scratch worktree: (1) existing suite passes with the change, (2) demo fails with it, (3) demo passes without it.
set -u
WT=$1; SUB=$2; DEMO=$3; DEST=$4; PKG=$5; FEAT=${6:-}
cd "$WT" || exit 9
git checkout -q -- . ; rm -f "$DEST"
git apply "SEED/$SUB/patch.diff" || { echo "APPLY FAILED"; exit 9; }
echo "== existing suite with the change"
cargo test --workspace --offline 2>&1 | grep -E "^test result|FAILED|failed" | sort | uniq -c
mkdir -p "$(dirname "$DEST")"; cp "SEED/$SUB/$DEMO" "$DEST"
T=$(basename "$DEST" .rs)
echo "== demo WITH the change (expect failure)"
cargo test -p "$PKG" ${FEAT:+--features $FEAT} --offline --test "$T" -- --test-threads=1 2>&1 | grep -E "^test |test result" | tail -12
git checkout -q -- .
echo "== demo WITHOUT the change (expect pass)"
cargo test -p "$PKG" ${FEAT:+--features $FEAT} --offline --test "$T" -- --test-threads=1 2>&1 | grep -E "^test |test result" | tail -12
rm -f "$DEST"
git status --short | head -5
