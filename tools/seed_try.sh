#!/bin/bash
# usage: seed_try.sh <patch.diff> <PROP> [more driver args]
# applies the patch to /repo, runs the check, reverts the working tree
P=$(realpath "$1"); shift
if git -C /repo status --short | grep -v '^??' | grep -q .; then echo "/repo not clean"; exit 9; fi
git -C /repo apply "$P" || exit 9
cd /verif && ./vcheck.py "$@" 2>&1 | grep -E "violation|inconclusive|VIOLATION|KNOWN|tier=|failed:" | cut -c1-260
git -C /repo checkout -- .
