#!/bin/bash
# usage: seed_run.sh <worktree> <a|b> <PROP> [tier]   -- runs the registered check of PROP against the worktree with the seed applied
# (location independent: uses the vcheck.py next to this script's parent, so it also works from a `vp run` snapshot)
WT=$1; SUB=$2; PROP=$3; TIER=${4:-quick}
HERE=$(cd "$(dirname "$0")/.." && pwd)
cd "$WT" || exit 9
git checkout -q -- . && git apply "SEED/$SUB/patch.diff" || exit 9
cd "$HERE"
VHOST_REPO="$WT" VERIF_WORK="$HERE/.work_seed_$(basename "$WT")" VERIF_NO_EVIDENCE=1 VERIF_JOBS=${JOBS:-8} ./vcheck.py "$PROP" --tier "$TIER" --no-replay 2>&1 | grep -E "violation|inconclusive|VIOLATION|KNOWN|tier=|failed:" | cut -c1-300
cd "$WT" && git checkout -q -- .
