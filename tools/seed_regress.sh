#!/bin/bash
# usage: seed_regress.sh <chain-id> <jobs> <seed-id>...
# Runs the registered quick check of each seed's property against a scratch worktree with the seed applied
# (never touches /repo's working tree) and appends "<seed> exit=<rc> <first deciding line>" to
# seeded/regress_<chain-id>.log (next to this script: works from a `vp run` snapshot too).  Expected: exit=1 for every seed recorded as caught in seeded/INDEX.md.
CH=$1; JOBS=$2; shift 2
HERE=$(cd "$(dirname "$0")/.." && pwd)
WT=/tmp/wt_reg_$CH
git -C /repo worktree remove --force $WT 2>/dev/null; rm -rf $WT
git -C /repo worktree add -q --detach $WT HEAD || exit 9
LOG=$HERE/seeded/regress_$CH.log
for S in "$@"; do
  PROP=${S%%-*}
  ( cd $WT && git checkout -q -- . && git apply $HERE/seeded/$S/patch.diff ) || { echo "$S APPLY-FAILED" >> $LOG; continue; }
  OUT=$(cd $HERE && VHOST_REPO=$WT VERIF_WORK=$HERE/.work_reg$CH VERIF_NO_EVIDENCE=1 VERIF_NO_SAT_SAMPLE=1 ./vcheck.py $PROP --tier quick --no-replay --jobs $JOBS 2>&1)
  RC=$?
  LINE=$(echo "$OUT" | grep -E "violation|inconclusive" | head -1 | cut -c1-120)
  FAIL=$(echo "$OUT" | grep -E "^   (failed|inconclusive):" | head -1 | cut -c1-160)
  echo "$S exit=$RC $(echo "$OUT" | grep -o 'harnesses=[0-9]* wall=[0-9]*s') | $LINE |$FAIL" >> $LOG
done
( cd $WT && git checkout -q -- . )
git -C /repo worktree remove --force $WT; rm -rf $HERE/.work_reg$CH
echo "chain $CH done" >> $LOG
