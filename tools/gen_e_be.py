#!/usr/bin/env python3
"""Regenerates the e_be! instantiation list at the end of harness/vu_backend_req_handler.rs."""
import re
P='/verif/harness/vu_backend_req_handler.rs'
served = {
 1:'get_features',2:'set_features',3:'set_owner',4:'reset_owner',5:'set_mem_table',6:'set_log_base',
 8:'set_vring_num',9:'set_vring_addr',10:'set_vring_base',11:'get_vring_base',12:'set_vring_kick',
 13:'set_vring_call',14:'set_vring_err',15:'get_protocol_features',16:'set_protocol_features',
 17:'get_queue_num',18:'set_vring_enable',21:'set_backend_req_fd',24:'get_config',25:'set_config',
 31:'get_inflight_fd',32:'set_inflight_fd',33:'gpu_set_socket',34:'reset_device',36:'get_max_mem_slots',
 37:'add_mem_reg',38:'rem_mem_reg',41:'get_shared_object',42:'set_device_state_fd',43:'check_device_state',
 44:'get_shmem_config'}
unserved = {7:'set_log_fd',19:'send_rarp',20:'net_set_mtu',22:'iotlb_msg',23:'set_vring_endian',26:'create_crypto',
 27:'close_crypto',28:'postcopy_advise',29:'postcopy_listen',30:'postcopy_end',35:'vring_kick',39:'set_status',40:'get_status'}
STUBS='stubs="vmm-sys-util raw_recvmsg/raw_sendmsg (ghost stream socket), libc::close + OwnedFd::drop (ghost descriptor table), handle_alloc_error (assume false)"'
def line(name, code, flags, delta, variant, tier, what, props="C02,C03,C04,C05,C07,C09", tf=""):
    # GET_CONFIG: 20 s on the unchanged tree, but a change that makes the reply payload length depend on the
    # body's size word costs CBMC ~300 s before the counterexample is out (seeded/C03-b): generous timeout
    tmo = 1200 if code == 24 else 400
    # ... and ~20 GB; the concrete-size variants get their own memory class so that they can finish
    mem = " mem=28" if (code == 24 and variant & 0x200) else ""
    return (f'// @harness props={props} tier={tier}{tf} reach=off timeout={tmo}{mem} bound="{what}; body bytes, 0..=2 attached descriptors, '
            f'three 64-bit negotiation words and handler outcome symbolic; one request" {STUBS}\n'
            f'e_be!({name}, {code}, {hex(flags)}, {delta}, {variant});\n')
out=[]
ARGS  = {2,5,6,8,9,10,11,12,13,14,16,18,21,24,25,31,32,33,37,38,41,42}
REPLY = {1,6,11,15,17,24,31,36,41,42,43,44}
VALID = {5,6,9,12,13,14,18,21,24,25,31,32,33,37,38,41,42}
GATED = {6,15,17,18,21,24,25,31,32,34,36,37,38,41,44}
FDS   = {5,6,12,13,14,21,32,33,37,42}
def props_for(code, plain=False):
    p=['C04','C01']
    if code in ARGS: p.append('C02')
    if code in REPLY or code in (2,8,34,3): p.append('C03')
    if code in VALID: p.append('C05')
    # C07: the gated requests themselves, and the requests that write the negotiation state every gate is decided on
    if code in GATED or code in (1,2,16): p.append('C07')
    if code in FDS or code in (1,8): p.append('C09')
    return ','.join(sorted(p))
# C04's quick tier is a representative subset (every reply shape, the state-changing messages, fd-carrying
# acks); its thorough tier is everything
C04_QUICK = {1,2,3,5,8,11,12,15,16,18,24,25,34,37,41,42,43,6}
# C01 (wire encoding of what the server writes): quick = every reply shape + two ack-only requests
C01_QUICK = REPLY | {2,12}
for code,name in sorted(served.items()):
    variants=[0]
    if code==25: variants=[4]
    if code==24: variants=[4+16*4, 4+16*3, 4+16*5, 4+16*5+0x200, 4+16*4+0x100]
    if code==5: variants=[1,2]
    for v in variants:
        sfx = f"_v{v}" if code==5 else (("_fail" if v&0x100 else f"_ret{(v>>4)&15}" + ("c" if v&0x200 else "")) if code==24 else "")
        second = (code==5 and v==2) or (code==24 and (v>>4)&15==3)
        pr = props_for(code)
        # keep the harness quick for the other properties, thorough-only for C04 when not in its subset
        tfl = ([] if code in C04_QUICK else ["C04"]) + ([] if code in C01_QUICK else ["C01"])
        tf = (" thorough_for=" + ",".join(tfl)) if tfl else ""
        t = 'thorough' if second else 'quick'
        extra = ", body size word concrete (= payload length)" if (code==24 and v&0x200) else ""
        out.append(line(f"e_be_{name}{sfx}_nr", code, 0x9, 0, v, t, f"request {code} ({name.upper()}), header flags 0x9 (version 1, NEED_REPLY), declared size = body size" + extra, pr, tf))
        out.append(line(f"e_be_{name}{sfx}_plain", code, 0x1, 0, v, 'thorough' if code not in (2,16,12) else t, f"request {code} ({name.upper()}), header flags 0x1 (version 1), declared size = body size" + extra, pr))
# SET_LOG_BASE (a request with a reply AND a handler that can fail): concrete handler outcome per instance, so that a
# tree which routes the outcome into a second send (reply + ack) stays decidable (seeded/C04-a6: the symbolic-outcome
# harness ran out of memory on such a tree)
for v,sfx,what in ((1,'_ok','handler succeeds'),(2,'_fail','handler fails')):
    out.append(line(f"e_be_set_log_base{sfx}_nr", 6, 0x9, 0, v, 'quick', f"request 6 (SET_LOG_BASE), header flags 0x9 (version 1, NEED_REPLY), declared size = body size, {what} (concrete outcome)", props_for(6)))
# malformed header classes on representatives
for code in (2,8,9,12,18,25,37,1,11):
    name=served[code]; v=4 if code==25 else 0
    t='quick' if code in (12,) else 'thorough'
    out.append(line(f"e_be_{name}_replybit", code, 0xd, 0, v, t, f"request {code} with the REPLY bit set (flags 0xd): must be rejected", "C04,C05,C09"))
    # SET_CONFIG's payload is variable: a declared size one byte shorter / longer is just another payload
    # length (valid when the body's size word says so), not a malformed header - no short/long class for it
    # (an earlier version had one and raised a false alarm in the thorough tier, see DESIGN.md section 6)
    if code == 25:
        continue
    if code not in (1,):
        out.append(line(f"e_be_{name}_short", code, 0x9, -1, v, t, f"request {code} with declared size one byte short", "C04,C05,C09"))
    out.append(line(f"e_be_{name}_long", code, 0x9, 1, v, t, f"request {code} with declared size one byte long", "C04,C05,C09"))
for code,name in sorted(unserved.items()):
    t='quick' if code in (7,) else 'thorough'
    out.append(line(f"e_be_unserved_{name}", code, 0x9, 0, 0, t, f"request {code} ({name.upper()}) which this server does not implement: error, no handler call, nothing written", "C04,C05,C09"))
s=open(P).read()
marker='// ==== generated by tools/gen_e_be.py ====\n'
s=s[:s.index(marker)+len(marker)] if marker in s else s+'\n'+marker
s+=''.join(out)
open(P,'w').write(s)
print(len(out),'instantiations')
