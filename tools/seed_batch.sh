#!/bin/bash
# usage: seed_batch.sh <parallel> <wt:PROP> ...   -- runs seed_run.sh for each pair, <parallel> at a time; one result file per pair
HERE=$(cd "$(dirname "$0")/.." && pwd)
PAR=$1; shift
mkdir -p "$HERE/.seed_results"
printf '%s\n' "$@" | xargs -P "$PAR" -I{} bash -c 'x={}; wt=${x%%:*}; p=${x##*:}; out='"$HERE"'/.seed_results/$(basename $wt).$p.txt; JOBS=${JOBS:-5} '"$HERE"'/tools/seed_run.sh $wt a $p quick > $out 2>&1; echo "=== $x"; cat $out'
