#!/usr/bin/env python3
"""Writes seeded/INDEX.md from seeded/*/meta.json."""
import json, glob, os
rows = []
for m in sorted(glob.glob("/verif/seeded/*/meta.json")):
    d = json.load(open(m)); det = d["detection"]
    if isinstance(det, str): det = {"caught": det, "check": "", "harnesses": "", "assertion": ""}
    rows.append((d["id"], d["property"], d["summary"], det))
out = ["# Seeded changes", "",
       "Each change was written by a fresh sub-agent that saw only the text of one property and a scratch worktree of /repo.",
       "Every change kept here was confirmed by me in a scratch worktree at /repo HEAD: the pinned 105-test suite passes with the",
       "change, the demonstration fails with it and passes without it. `meta.json` in each directory records what the change needs",
       "to manifest and what was run. To re-run: `tools/seed_try.sh seeded/<id>/patch.diff <PROP>` (applies to /repo, runs the",
       "registered quick check, reverts).", "",
       "| id | change | result of the registered check | deciding harness(es) | failed assertion |", "|---|---|---|---|---|"]
for i, p, s, d in rows:
    out.append(f"| {i} | {s} | {'caught by ' + d.get('check','') + ' (exit 1)' if d['caught']=='quick' else 'NOT caught: ' + d['caught']} | {d.get('harnesses','')} | {d.get('assertion','')} |")
out += ["", "## Checks that were strengthened because of a seeded change", ""]
for i, p, s, d in rows:
    if d.get("history"):
        out.append(f"* **{i}** — {d['history']}")
open("/verif/seeded/INDEX.md", "w").write("\n".join(out) + "\n")
print(len(rows), "rows")
