#!/usr/bin/env python3
"""Regenerates MANIFEST.json from the table below (kept as code so it is always schema-valid)."""
import json, subprocess
CLAIMS = {
 "C20": dict(
   text="Bounded model checking (Kani/CBMC) of every VhostUserMsgValidator implementation against an independent reference predicate, with ALL bits of the message struct symbolic (no bound on values; the only bound is the struct size). UNSAT means the validator and the protocol rule agree on every bit pattern.",
   note="Trusted: Kani/CBMC/CaDiCaL; the hand-transcribed rules in harness/spec.rs. VhostUserShMemConfig and the GPU bodies have the default always-true validator and are not enumerated (only u64/vring-state/empty are asserted always-valid). xen feature off.",
   design="4/C20"),
}
NA = {
 "C16": "threads, JoinHandle::join, blocking recvmsg woken by shutdown(2), worker lifetime: not encodable for Kani/CBMC (no concurrency support); the termination-on-EOF ingredient is checked under C08",
}
WIP = "check not built yet in this round (work in progress; see DESIGN.md section 8)"
ALL = [f"C{i:02d}" for i in range(1, 21)]
hook_commits = subprocess.run(["git","-C","/repo","log","--format=%h %s"],capture_output=True,text=True).stdout.split("\n")
hook_commits = [l.split()[0] for l in hook_commits if l.startswith(tuple("0123456789abcdef")) and " verif:" in l]
m = {
 "version": 1,
 "setup_cmd": "./vcheck.py --setup --jobs 12",
 "hooks": {
   "guard": "cargo feature `verif` of the crates vhost and vhost-user-backend (off by default; with it off nothing is compiled in)",
   "enable": "VHOST_VERIF_DIR=/verif cargo kani -p <crate> --features verif,... -Z stubbing (done by vcheck.py); each hooked source file ends with `#[cfg(feature = \"verif\")] mod verif { include!(.../harness/<file>.rs) }`",
   "baseline_off_cmd": "cd /repo && cargo nextest run --workspace --no-fail-fast --tool-config-file pb:/w/lib/nextest.toml --profile pb --test-threads 8 --offline",
   "source_commits": hook_commits,
   "add_only": True,
 },
 "engines": [
   {"name": "kani", "path": "vcheck.py", "serves_properties": sorted(CLAIMS), "kind_free_text": "Kani 0.68 proof harnesses (harness/*.rs, included into /repo's crates as child modules) -> CBMC 6.11 -> CaDiCaL; driver vcheck.py schedules one cargo-kani process per slot, parses verdicts/cover witnesses/solver statistics, replays counterexamples (kani concrete playback, natively for stub-free harnesses)"},
 ],
 "checks": [],
 "not_applicable": [],
 "notes": "Exit codes of every command: 0 held, 1 VIOLATION line, 2 inconclusive (timeout/OOM/unwinding bound/vacuous cover/non-reproducing counterexample). Known findings: known_findings.json.",
}
for pid in ALL:
    if pid in CLAIMS:
        c = CLAIMS[pid]
        m["checks"].append({
          "property_id": pid,
          "quick_cmd": f"./vcheck.py {pid} --tier quick",
          "thorough_cmd": f"./vcheck.py {pid} --tier thorough",
          "evidence_file": f"evidence/{pid}.json",
          "replay_cmd_template": "cat {path}",
          "engine": "kani",
          "level_claimed": {"category": "model_checking", "text": c["text"], "design_ref": c["design"]},
          "level_note": c["note"],
          "technique": "solver-based bounded model checking of the real Rust code: Kani 0.68 proof harnesses -> CBMC 6.11 -> CaDiCaL (SAT), counterexample replay",
        })
    else:
        m["not_applicable"].append({"property_id": pid, "reason": NA.get(pid, WIP)})
json.dump(m, open("/verif/MANIFEST.json","w"), indent=1)
print("claimed:", sorted(CLAIMS), "n/a:", [x["property_id"] for x in m["not_applicable"]])
