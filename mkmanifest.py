#!/usr/bin/env python3
"""Regenerates MANIFEST.json from the table below (kept as code so it is always schema-valid)."""
import json, subprocess
E_BE = "E-level backend harnesses = the real BackendReqHandler::handle_request (behind the library's Mutex adapter) over the ghost stream socket, one harness per request code x header-flag class (0x1, 0x9, and malformed classes 0xd / size+-1 on representatives); body bytes, 0..=2 attached descriptors, the three 64-bit negotiation words and the handler outcome symbolic; one request per run, started from an ARBITRARY negotiation state (inductive step)"
E_FE = "E-level frontend harnesses = every public Frontend operation through the Arc<Mutex> handle over the ghost socket with symbolic arguments, symbolic cached feature words / queue limit / NEED_REPLY, and a peer reply of one concrete header class (conformant, foreign code, REPLY bit missing, version 2, reserved bit, size+1) with 40 symbolic body bytes and 0..=2 descriptors"
TB = "Trusted: Kani 0.68/CBMC 6.11/CaDiCaL and Kani's model of Rust+std; the hand-transcribed spec oracle harness/spec.rs; the ghost kernel harness/ghost.rs as the contract of vmm-sys-util's raw_sendmsg/raw_recvmsg, close(2) and SCM_RIGHTS (stubs listed in each evidence file); allocation never fails. "
CLAIMS = {
 "C01": dict(
   text="Bounded model checking of the real encode/decode code against an independent spec codec. "+E_FE+": bytes written == spec encoding for every argument value, descriptors = the caller's on the first send only. "+E_BE+": reply/ack bytes == spec encoding. U-level: extract_request_body<T> decodes each body type to exactly the wire bytes; request-code tables over all u32.",
   note=TB+"Bounds: config payload 4 bytes (1 and 0 in thorough), memory table <= 2 regions, <= 2 descriptors, SHMEM config reply checked on its first 40 bytes only; 4096-byte payloads, 32 regions/descriptors, GPU channel: the send-only operations (set_scanout, cursor_pos(_hide), set_dmabuf_scanout(2), update_scanout, set_protocol_features) plus get_protocol_features and update_dmabuf_scanout with their replies; backend-initiated requests and their acks: see C18; display-info/EDID/cursor images are outside the bounds. Header control words of peers are concrete classes at E level (fully symbolic at U level).",
   design="4/C01"),
 "C02": dict(
   text="Composition over the shared spec encoding: frontend half ("+E_FE+": accepted calls write exactly spec::encode(op,args); locally rejected calls - queue index >= max, empty/zero-size region, bad handle, invalid config window, un-negotiated feature - write nothing) and backend half ("+E_BE+": a spec-encoded request reaches the handler behind the Mutex adapter exactly once, with equal argument words / payload bytes / descriptor numbers, and no call otherwise).",
   note=TB+"'Same open file' is the SCM_RIGHTS contract of the stub (descriptor numbers 100+i installed by recvmsg are what the handler receives). Position in a longer session enters only through the negotiation words, which are symbolic. <= 2 regions, payload 4 bytes, <= 2 descriptors; RwLock/Arc adapters of vhost-user-backend are not part of this check.",
   design="4/C02"),
 "C03": dict(
   text="Backend half ("+E_BE+" with symbolic handler outcome: value/flagged/failed): reply bytes are the spec encoding of exactly what the handler produced, in-band failure encodings included, handler errors reach the serving loop. Frontend half ("+E_FE+"): Ok(v) only for a reply to this request and v equals the replied values/bytes/descriptor; non-zero status, missing file, wrong-length config, foreign replies give Err; the call never reads past what a conformant peer sends while the peer stays connected (BLOCKED flag of the ghost) - this found and now guards the GET_CONFIG failure-reply hang (fixed, 1418ef6).",
   note=TB+"Termination = all loops closed by unwinding assertions within the bound. GET_SHMEM_CONFIG's 2056-byte reply is outside the receive bound; GET_CONFIG with 4-byte window, concrete offset/flags.",
   design="4/C03"),
 "C04": dict(
   text="Inductive step over the request server: from an arbitrary negotiation state (three symbolic 64-bit words, reply_ack flag tied by the invariant that the harness re-proves after the request), one request of each code: bytes consumed == 12 + declared size for well-formed requests, exactly one reply / one u64 ack (0 iff success) / nothing as the rule table prescribes, reply header = same code, version 1|REPLY, size = payload, written after the whole request was read, next state == reference next state. Because the step holds from every state, the k-th reply answers the k-th request for histories of any length.",
   note=TB+"For the two messages that change the negotiation state the reference uses the post-update state. For rejected (malformed) requests the oracle accepts silence or one non-zero ack (the property is silent there). Header flag classes are concrete representatives; unknown/unserved codes included.",
   design="4/C04"),
 "C05": dict(
   text=E_BE+": the handler is reached only if the request is protocol-valid (region/ring-address/config/enable/uuid/device-state rules, exact descriptor count) - with Kani's panic, overflow, bounds and pointer checks on every path. U-level: check_request_size, check_attached_files (all u32 codes), extract_request_body<T> for 8 body types, set_mem_table, set_config, handle_vring_fd_request with FULLY symbolic header words, sizes and 0..=3 files. Found and now guards F1 (single-region validator, 0aeef32) and F4 (no-fd flag with 2 files, f70f785).",
   note=TB+"Daemon half: index/size checks of the per-ring messages and vmm_va_to_gpa under Kani's overflow checks (c14_u_*, c13_u_*); the memory-table and log-base handlers need memory() and are not covered. Body <= 72 bytes, <= 2 regions, config payload <= 8 bytes, <= 3 descriptors; the 33-descriptor case is outside.",
   design="4/C05"),
 "C06": dict(
   text=E_FE+": every reply-bearing and acknowledged operation returns Ok only if the bytes are a reply to that very request (REPLY flag, same code, valid header and body, descriptors exactly when defined) and never fabricates a value; GET_CONFIG reply classes incl. a payload shorter than the body's size word claims; plus recv_body segmentation harnesses; U level (c06_u_*): FrontendInternal::is_reply_for / recv_reply<u64> / wait_for_ack / recv_reply_with_files with ALL 96 header bits of the peer's reply symbolic. ",
   note=TB+"Backend-to-frontend proxy acks (unit level) and the FrontendReqHandler server (E level, arbitrary bodies/descriptors) are included; the GPU proxy's reply parsing is covered for get_protocol_features and update_dmabuf_scanout (conformant, foreign code, REPLY bit missing, undefined flag bit; 0..=1 descriptors) - tractable since Mutex::lock is stubbed (see C10); get_display_info / get_edid replies exceed the wire bound. Reply control words are concrete classes at E level and fully symbolic at U level.",
   design="4/C06"),
 "C07": dict(
   text="Frontend ("+E_FE+", full 64-bit cached feature words symbolic, so a gate on a wrong bit is distinguishable): a gated operation writes bytes only if its spec gating bit is set (offered PROTOCOL_FEATURES for the protocol-feature exchange, acked for ring enable, DEVICE_STATE for state transfer), else Err and zero sends. Backend ("+E_BE+"): handler reached only if the gating bit is in the acked words; GET_PROTOCOL_FEATURES reply always carries REPLY_ACK.",
   note=TB+"Histories enter through the symbolic state words (any state a negotiation history can produce is included; the state update itself is C04). Proxy: shared-object / shared-memory requests are refused with nothing written unless the flag is set (e_px_*_gated).",
   design="4/C07"),
 "C08": dict(
   text="Unit harnesses on the real Endpoint code over a ghost socket with delivery cuts / partial accepts: get_sub_iovs_offset vs a reference (all lengths), recv_header / recv_body / recv_data under 2-3 segment deliveries at representative cut positions and under end-of-stream after c bytes (Disconnected iff c==0, PartialMessage/short otherwise, never blocked), send_message under per-call accept limits and one injected EAGAIN/EINTR/ENOBUFS (bytes once, in order, descriptors with byte 0 only); E level: the real BackendReqHandler::handle_request with the stream ending 0, 7, 12, 19 bytes into a request (c08_e_*: Disconnected only at offset 0, another error inside the message, handler not reached, nothing written, never blocked). Found and now guards F3 (single-recvmsg body read, 07d4ebc).",
   note=TB+"Cut positions / accept sizes are concrete representatives (symbolic cuts make the resume offsets symbolic and the loops unbounded for CBMC - measured OOM); messages <= 20 bytes; message shapes header, header+body, body; every message type is not enumerated because framing is type-generic.",
   design="4/C08"),
 "C09": dict(
   text="Ghost descriptor table over the E-level backend runs (valid, invalid, over-stuffed requests with 0..=2 descriptors) and the frontend runs: every descriptor installed by recvmsg is either handed to the handler by value exactly once or closed exactly once by the library when handle_request / the frontend call returns; no double close; descriptors lent for transmission (RawFd / &EventFd arguments) are never closed. U-level: handle_vring_fd_request and check_attached_files with 0..=3 files.",
   note=TB+"Model level: close(2)/OwnedFd::drop are stubs over the ghost table. vhost-user-backend: replacing/clearing a ring's kick/call/err descriptor closes the previous one exactly once (c09_u_vring_fds at VringState level; the C11 step harnesses for SET_VRING_KICK / GET_VRING_BASE at handler level: the replaced kick descriptor is closed, no installed one is). Code that inspects a received descriptor through a foreign function (getsockopt, fstat, ...) cannot be modelled or stubbed in Kani 0.68: such a change makes the check inconclusive (exit 2), see seeded/C09-a. Descriptor batches around the per-message limit: recv_header with 32, 33 and 64 attached descriptors (counted ghost descriptors): installed == handed on or closed; descriptors attached to the BODY segment of a request (c09_e_fds_on_body_*) are closed, never leaked. Teardown at arbitrary points are not covered.",
   design="4/C09"),
 "C10": dict(
   text="Reduction to the endpoint lock: every path to the shared socket goes through the handle's Mutex, so another caller can interleave with a transaction only at a socket syscall made while the lock is free. The syscall stubs (raw_sendmsg/raw_recvmsg) of all E-level harnesses of Frontend (every operation), Backend (5 operations) and GpuBackend (send-only operations, get_protocol_features and update_dmabuf_scanout with conformant and non-conformant replies) try_lock the endpoint at every call: the lock is never free at a socket call and is free again on return. std::sync::Mutex::lock itself is replaced by a stub that counts acquisitions and takes the lock with try_lock: every receive must run under the SAME acquisition as the socket call before it (request and reply in one critical section), and a lock() on a mutex the call already holds is reported as self-deadlock (also on error paths).",
   note=TB+"Kani does not execute threads: what is decided is the lock discipline of one call for all argument values, from which atomicity of request/response pairs for any number of callers follows by the Mutex contract (argued, not checked); fairness / completion under contention is std's Mutex. GPU get_display_info / get_edid exceed the ghost wire bound (408 / 1056-byte replies) and are not covered.",
   design="4/C10"),
 "C11": dict(
   text="The ring state machine as an INDUCTIVE STEP on the real daemon handler (VhostUserHandler built by struct literal, real VringEpollHandler::handle_event as the worker, ghost epoll interest lists and eventfd counters): from every combination of per-ring pre-states (not started / started without kick fd / started with kick fd) x enabled x pending kick on 2 rings, one step of {SET_FEATURES without PF, SET_VRING_KICK new, SET_VRING_KICK none, SET_VRING_CALL, SET_VRING_ENABLE 0/1, GET_VRING_BASE, RESET_DEVICE, guest kick + worker turn} on a symbolic ring preserves 'kick fd in the worker's interest list <=> started and enabled', follows the reference machine, dispatches iff active, consumes a kick only when dispatching and never runs the handler on control messages. Found F5 (kick fd installed on an already started ring never watched; fixed d8b719e).",
   note=TB+"Ghost epoll: ADD of a present fd / DEL of an absent one are reported as Ok (the code ignores exactly EEXIST/ENOENT); closing a descriptor removes it from all interest lists; level-triggered readiness = counter > 0. The handler/epoll-handler/ring constructors are NOT executed (Kani cannot compile them: ArcSwap drop glue) - objects are built by literal with the per-thread slices given. SET_FEATURES with PROTOCOL_FEATURES and bounded symbolic histories (depth 2-3) are in the thorough tier.",
   design="4/C11"),
 "C12": dict(
   text="Schedules are made symbolic by SEQUENTIALISATION at the points where worker and control thread can be suspended relative to each other, executing the real functions in that order: W1 (epoll_wait returned a now stale event) . C (SET_VRING_ENABLE 0 / GET_VRING_BASE / RESET_DEVICE runs to completion) . worker continues . re-enable (resp. restart with a new kick descriptor and a fresh kick after GET_VRING_BASE) . worker turn; and W2 (worker read the kick, ring lock released, handler not yet entered) . C . worker continues. Asserted: no event-handler entry for the ring after the reply of C; a kick is never consumed without being processed and is processed after re-enabling / restarting. Found F6 (stale event: kick of a disabled ring consumed and lost; stopped ring still dispatched - fixed 0f98fb0). The W2 window is a genuine race that is recorded as a known finding (KNOWN-FINDING lines), not repaired.",
   note=TB+"Only these two families of two-thread schedules (each control message atomic w.r.t. the worker step it is nested in); a control thread suspended mid-message, more threads, and eventual processing beyond one re-enable are argued, not checked. No native multi-thread replay exists; the harness order is an execution of the real functions.",
   design="4/C12"),
 "C13": dict(
   text="Address translation only: VhostUserHandler::vmm_va_to_gpa over symbolic mapping tables of 0, 1 and 3 entries obeying exactly what the request server validates (size != 0, no 64-bit wrap; overlaps and any order allowed) and every 64-bit probe address: result == gpa_base + (va - user_base) of the first region containing va, Err iff none, no arithmetic overflow.",
   note=TB+"NOT covered (needs mmap and GuestMemoryAtomic::memory(), which Kani 0.68 cannot compile): the memory object equals the accepted regions, file visibility, atomicity of failed updates, one notification per change, mappings kept in step by SET_MEM_TABLE / ADD_MEM_REG / REM_MEM_REG.",
   design="4/C13"),
 "C14": dict(
   text="The clauses that do not touch guest memory, on the literal-built daemon handler: SET_VRING_NUM refuses zero / over-maximum sizes and out-of-range indexes (all u32 indexes); SET_VRING_BASE/GET_VRING_BASE round-trip the next-available index and stop the ring; every per-ring message rejects out-of-range indexes (all u32 / u8); SET_FEATURES is accepted iff subset of the offered mask (all 2^128 pairs) and then delivers exactly the bits to the backend and EVENT_IDX to every queue and the backend, enabling all rings iff PROTOCOL_FEATURES is absent; signal_used_queue notifies exactly the most recently installed call descriptor or nothing (3-step symbolic replace/clear history); the library's Mutex / RwLock / Arc<Mutex> backend adapters forward every call, argument and result unchanged (c14_u_adapter_*).",
   note=TB+"NOT covered: SET_VRING_ADDR (translated addresses, used index from guest memory), add_used on the latest memory table (both need memory()); 'an accepted SET_VRING_NUM reaches the queue' (virtio-queue's error type makes the accepting path intractable for CBMC, measured); backend-request-channel flag inheritance.",
   design="4/C14"),
 "C15": dict(
   text="Bit-exact page arithmetic of the dirty log: AtomicBitmapMmap::mark_dirty/dirty_at over a 4-byte log window with guard bytes, region start 0..=31 pages and length 1..=32 pages (page aligned, fitting the log), write offset and length over ALL usize values, arbitrary initial log contents: each of the 32 bits afterwards == old bit OR (page touched), guards unchanged, loops bounded by unwinding assertions; BitmapMmapRegion (lock-protected shared handle): slice_at + mark_dirty over all usize base/offset/len, run-time replace, absent bitmap is a no-op; AtomicBitmapMmap::new over a range-only fake region (all 64-bit start/length, log sizes 0..=8 bytes): accepted iff the log has a byte for the region's highest page.",
   note=TB+"NOT covered: SET_LOG_BASE on the daemon (needs memory()), persistence across memory-table changes, real mmap, lost updates between concurrent writers (fetch_or is assumed atomic; Kani has no threads).",
   design="4/C15"),
 "C17": dict(
   text="Routing: for ALL 64-bit queues-per-thread masks of 1..=3 worker threads, queue q (each of 0..=3 in its own harness) is registered with exactly one worker - the first whose mask contains q - with event id = number of lower set bits; for representative concrete mask configurations (interleaved, overlapping, bits beyond the queue count) the real handle_event on that worker hands the backend that thread id, that event id and a ring slice whose element at the id is queue q. Listener ids: accepted only above num_queues (all 64-bit ids, 1..=6 queues); one iteration of the REAL worker loop run() with a scripted epoll delivers an accepted listener's event exactly once with exactly its id and then stops on the exit event (id num_queues). Found F7 (ids above 65535 truncated to u16: taken for a queue / the exit event; fixed 53f0a5b).",
   note=TB+"The per-thread ring slices are built by the harness as the property describes them (VhostUserHandler::new cannot be compiled by Kani), so the slice construction in the constructor itself is NOT covered. Epoll::wait is scripted (two events); the worker's 100-entry event buffer creation (vec![..;100]) is stubbed to avoid a 100-fold unwinding.",
   design="4/C17"),
 "C18": dict(
   text="Server half: the real FrontendReqHandler::handle_request (built by literal) over the ghost socket, one harness per backend request code and flag class, symbolic body / 0..=2 descriptors / reply-ack flag / handler outcome (value, errno 1..=4095, error without errno): application handler invoked exactly once for well-formed requests with exactly the prescribed descriptor (lent, closed afterwards), equal arguments; ack written iff reply-ack and NEED_REPLY, carrying the handler's value resp. the two's-complement negated errno (-EINVAL default). Proxy half: Backend's five operations without REPLY_ACK (bytes == spec, descriptor where defined, nothing awaited) and with the feature flag off (refused, nothing written); acknowledged requests both one level below the public wrapper (BackendInternal::send_message/wait_for_ack with all 96 ack header bits symbolic) and through the public methods with REPLY_ACK negotiated (e_px_*_ack: NEED_REPLY set, success iff conformant zero ack without descriptors, foreign acks refused).",
   note=TB+"The proxy's public methods with REPLY_ACK were intractable (14/40 GB) until std's Mutex::lock was stubbed (C10 acquisition counter); they are now covered for shared_object_add/lookup, shmem_map/unmap (ack header classes concrete), the U-level harnesses keep the fully symbolic ack header. 'k-th ack answers k-th request' follows from one request/one ack per call under the proxy lock (C10).",
   design="4/C18"),
 "C19": dict(
   text="Every operation of the kernel-vhost trait (through a harness type implementing VhostKernBackend), Net::set_backend, Vsock (cid/start/stop) and VhostKernVdpa (13 operations + set_vring_addr) runs against a ghost kernel that captures request number and argument bytes: request == the number computed AT CHECK TIME by uapi/gen.c from the installed <linux/vhost.h> (direction, type, nr, size), argument bytes at the UAPI offsets == the caller's values (all values symbolic), results == what the ghost kernel wrote back; invalid inputs (empty memory table, log region, invalid vDPA ring configuration) issue zero ioctls; vDPA ring addresses are passed unchanged; IOTLB v1/v2 parsers vs UAPI offsets. Found F9 (set_group_asid issued the GET_VRING_GROUP request; fixed b18c060).",
   note=TB+"NOT covered: the failing-ioctl path (reads errno through __errno_location: no Kani model), the IOTLB writer / dma_map / dma_unmap (call write(2) directly: foreign functions can be neither modelled nor stubbed in Kani 0.68 - measured), kernel-vhost set_vring_addr acceptance and guest->host address translation (guest-memory region lookup did not finish under CBMC), vDPA get/set_config (flexible array). Memory table <= 2 regions.",
   design="4/C19"),
 "C20": dict(
   text="Bounded model checking (Kani/CBMC) of every VhostUserMsgValidator implementation against an independent reference predicate, with ALL bits of the message struct symbolic (no bound on values; the only bound is the struct size). UNSAT means the validator and the protocol rule agree on every bit pattern.",
   note="Trusted: Kani/CBMC/CaDiCaL; the hand-transcribed rules in harness/spec.rs. VhostUserShMemConfig and the GPU bodies have the default always-true validator and are not enumerated (only u64/vring-state/empty are asserted always-valid). xen feature off.",
   design="4/C20"),
}
NA = {
 "C16": "threads, JoinHandle::join, blocking recvmsg woken by shutdown(2), worker lifetime: not encodable for Kani/CBMC (no concurrency support); the termination-on-EOF ingredient is checked under C08",
}
WIP = "check not built yet in this round (work in progress; see DESIGN.md section 8)"
ALL = [f"C{i:02d}" for i in range(1, 21)]
hook_commits = subprocess.run(["git","-C","/repo","log","--format=%h %s"],capture_output=True,text=True).stdout.split("\n")
hook_commits = [l.split()[0] for l in hook_commits if l.startswith(tuple("0123456789abcdef")) and " verif:" in l]
m = {
 "version": 1,
 "setup_cmd": "./vcheck.py --setup --jobs 12",
 "hooks": {
   "guard": "cargo feature `verif` of the crates vhost and vhost-user-backend (off by default; with it off nothing is compiled in)",
   "enable": "VHOST_VERIF_DIR=/verif cargo kani -p <crate> --features verif,... -Z stubbing (done by vcheck.py); each hooked source file ends with `#[cfg(feature = \"verif\")] mod verif { include!(.../harness/<file>.rs) }`",
   "baseline_off_cmd": "cd /repo && cargo nextest run --workspace --no-fail-fast --tool-config-file pb:/w/lib/nextest.toml --profile pb --test-threads 8 --offline",
   "source_commits": hook_commits,
   "add_only": True,
 },
 "engines": [
   {"name": "kani", "path": "vcheck.py", "serves_properties": sorted(CLAIMS), "kind_free_text": "Kani 0.68 proof harnesses (harness/*.rs, included into /repo's crates as child modules) -> CBMC 6.11 -> CaDiCaL; driver vcheck.py schedules one cargo-kani process per slot, parses verdicts/cover witnesses/solver statistics, replays counterexamples (kani concrete playback, natively for stub-free harnesses)"},
 ],
 "checks": [],
 "not_applicable": [],
 "notes": "Harnesses that no longer compile against the tree under test (they call private items) are left out and reported inconclusive, the rest still runs (DESIGN 2.2). Exit codes of every command: 0 held, 1 VIOLATION line, 2 inconclusive (timeout/OOM/unwinding bound/vacuous cover/non-reproducing counterexample/code reaching a construct Kani cannot model). Known findings: known_findings.json.",
}
for pid in ALL:
    if pid in CLAIMS:
        c = CLAIMS[pid]
        m["checks"].append({
          "property_id": pid,
          "quick_cmd": f"./vcheck.py {pid} --tier quick",
          "thorough_cmd": f"./vcheck.py {pid} --tier thorough",
          "evidence_file": f"evidence/{pid}.json",
          "replay_cmd_template": "cat {path}",
          "engine": "kani",
          "level_claimed": {"category": "model_checking", "text": c["text"], "design_ref": c["design"]},
          "level_note": c["note"],
          "technique": "solver-based bounded model checking of the real Rust code: Kani 0.68 proof harnesses -> CBMC 6.11 -> CaDiCaL (SAT), counterexample replay",
        })
    else:
        m["not_applicable"].append({"property_id": pid, "reason": NA.get(pid, WIP)})
json.dump(m, open("/verif/MANIFEST.json","w"), indent=1)
print("claimed:", sorted(CLAIMS), "n/a:", [x["property_id"] for x in m["not_applicable"]])
