#!/usr/bin/env python3
"""Regenerates MANIFEST.json from the table below (kept as code so it is always schema-valid)."""
import json, subprocess
E_BE = "E-level backend harnesses = the real BackendReqHandler::handle_request (behind the library's Mutex adapter) over the ghost stream socket, one harness per request code x header-flag class (0x1, 0x9, and malformed classes 0xd / size+-1 on representatives); body bytes, 0..=2 attached descriptors, the three 64-bit negotiation words and the handler outcome symbolic; one request per run, started from an ARBITRARY negotiation state (inductive step)"
E_FE = "E-level frontend harnesses = every public Frontend operation through the Arc<Mutex> handle over the ghost socket with symbolic arguments, symbolic cached feature words / queue limit / NEED_REPLY, and a peer reply of one concrete header class (conformant, foreign code, REPLY bit missing, version 2, reserved bit, size+1) with 40 symbolic body bytes and 0..=2 descriptors"
TB = "Trusted: Kani 0.68/CBMC 6.11/CaDiCaL and Kani's model of Rust+std; the hand-transcribed spec oracle harness/spec.rs; the ghost kernel harness/ghost.rs as the contract of vmm-sys-util's raw_sendmsg/raw_recvmsg, close(2) and SCM_RIGHTS (stubs listed in each evidence file); allocation never fails. "
CLAIMS = {
 "C01": dict(
   text="Bounded model checking of the real encode/decode code against an independent spec codec. "+E_FE+": bytes written == spec encoding for every argument value, descriptors = the caller's on the first send only. "+E_BE+": reply/ack bytes == spec encoding. U-level: extract_request_body<T> decodes each body type to exactly the wire bytes; request-code tables over all u32.",
   note=TB+"Bounds: config payload 4 bytes (1 and 0 in thorough), memory table <= 2 regions, <= 2 descriptors, SHMEM config reply checked on its first 40 bytes only; 4096-byte payloads, 32 regions/descriptors, GPU and backend-initiated channels are not covered by this check yet. Header control words of peers are concrete classes at E level (fully symbolic at U level).",
   design="4/C01"),
 "C02": dict(
   text="Composition over the shared spec encoding: frontend half ("+E_FE+": accepted calls write exactly spec::encode(op,args); locally rejected calls - queue index >= max, empty/zero-size region, bad handle, invalid config window, un-negotiated feature - write nothing) and backend half ("+E_BE+": a spec-encoded request reaches the handler behind the Mutex adapter exactly once, with equal argument words / payload bytes / descriptor numbers, and no call otherwise).",
   note=TB+"'Same open file' is the SCM_RIGHTS contract of the stub (descriptor numbers 100+i installed by recvmsg are what the handler receives). Position in a longer session enters only through the negotiation words, which are symbolic. <= 2 regions, payload 4 bytes, <= 2 descriptors; RwLock/Arc adapters of vhost-user-backend are not part of this check.",
   design="4/C02"),
 "C03": dict(
   text="Backend half ("+E_BE+" with symbolic handler outcome: value/flagged/failed): reply bytes are the spec encoding of exactly what the handler produced, in-band failure encodings included, handler errors reach the serving loop. Frontend half ("+E_FE+"): Ok(v) only for a reply to this request and v equals the replied values/bytes/descriptor; non-zero status, missing file, wrong-length config, foreign replies give Err; the call never reads past what a conformant peer sends while the peer stays connected (BLOCKED flag of the ghost) - this found and now guards the GET_CONFIG failure-reply hang (fixed, 1418ef6).",
   note=TB+"Termination = all loops closed by unwinding assertions within the bound. GET_SHMEM_CONFIG's 2056-byte reply is outside the receive bound; GET_CONFIG with 4-byte window, concrete offset/flags.",
   design="4/C03"),
 "C04": dict(
   text="Inductive step over the request server: from an arbitrary negotiation state (three symbolic 64-bit words, reply_ack flag tied by the invariant that the harness re-proves after the request), one request of each code: bytes consumed == 12 + declared size for well-formed requests, exactly one reply / one u64 ack (0 iff success) / nothing as the rule table prescribes, reply header = same code, version 1|REPLY, size = payload, written after the whole request was read, next state == reference next state. Because the step holds from every state, the k-th reply answers the k-th request for histories of any length.",
   note=TB+"For the two messages that change the negotiation state the reference uses the post-update state. For rejected (malformed) requests the oracle accepts silence or one non-zero ack (the property is silent there). Header flag classes are concrete representatives; unknown/unserved codes included.",
   design="4/C04"),
 "C05": dict(
   text=E_BE+": the handler is reached only if the request is protocol-valid (region/ring-address/config/enable/uuid/device-state rules, exact descriptor count) - with Kani's panic, overflow, bounds and pointer checks on every path. U-level: check_request_size, check_attached_files (all u32 codes), extract_request_body<T> for 8 body types, set_mem_table, set_config, handle_vring_fd_request with FULLY symbolic header words, sizes and 0..=3 files. Found and now guards F1 (single-region validator, 0aeef32) and F4 (no-fd flag with 2 files, f70f785).",
   note=TB+"Daemon half (vhost-user-backend handler index/size arithmetic) is not in this check yet. Body <= 72 bytes, <= 2 regions, config payload <= 8 bytes, <= 3 descriptors; the 33-descriptor case is outside.",
   design="4/C05"),
 "C06": dict(
   text=E_FE+": every reply-bearing and acknowledged operation returns Ok only if the bytes are a reply to that very request (REPLY flag, same code, valid header and body, descriptors exactly when defined) and never fabricates a value; plus recv_body segmentation harnesses. ",
   note=TB+"Backend-to-frontend proxy, GPU proxy and the FrontendReqHandler server are not in this check yet. Reply control words are concrete classes at E level.",
   design="4/C06"),
 "C07": dict(
   text="Frontend ("+E_FE+", full 64-bit cached feature words symbolic, so a gate on a wrong bit is distinguishable): a gated operation writes bytes only if its spec gating bit is set (offered PROTOCOL_FEATURES for the protocol-feature exchange, acked for ring enable, DEVICE_STATE for state transfer), else Err and zero sends. Backend ("+E_BE+"): handler reached only if the gating bit is in the acked words; GET_PROTOCOL_FEATURES reply always carries REPLY_ACK.",
   note=TB+"Histories enter through the symbolic state words (any state a negotiation history can produce is included; the state update itself is C04). Proxy flags (shared object / shmem) not in this check yet.",
   design="4/C07"),
 "C08": dict(
   text="Unit harnesses on the real Endpoint code over a ghost socket with delivery cuts / partial accepts: get_sub_iovs_offset vs a reference (all lengths), recv_header / recv_body / recv_data under 2-3 segment deliveries at representative cut positions and under end-of-stream after c bytes (Disconnected iff c==0, PartialMessage/short otherwise, never blocked), send_message under per-call accept limits and one injected EAGAIN (bytes once, in order, descriptors with byte 0 only). Found and now guards F3 (single-recvmsg body read, 07d4ebc).",
   note=TB+"Cut positions / accept sizes are concrete representatives (symbolic cuts make the resume offsets symbolic and the loops unbounded for CBMC - measured OOM); messages <= 20 bytes; message shapes header, header+body, body; every message type is not enumerated because framing is type-generic.",
   design="4/C08"),
 "C09": dict(
   text="Ghost descriptor table over the E-level backend runs (valid, invalid, over-stuffed requests with 0..=2 descriptors) and the frontend runs: every descriptor installed by recvmsg is either handed to the handler by value exactly once or closed exactly once by the library when handle_request / the frontend call returns; no double close; descriptors lent for transmission (RawFd / &EventFd arguments) are never closed. U-level: handle_vring_fd_request and check_attached_files with 0..=3 files.",
   note=TB+"Model level: close(2)/OwnedFd::drop are stubs over the ghost table. Teardown at arbitrary points, >32 descriptors and vhost-user-backend's vring descriptor replacement are not in this check yet.",
   design="4/C09"),
 "C20": dict(
   text="Bounded model checking (Kani/CBMC) of every VhostUserMsgValidator implementation against an independent reference predicate, with ALL bits of the message struct symbolic (no bound on values; the only bound is the struct size). UNSAT means the validator and the protocol rule agree on every bit pattern.",
   note="Trusted: Kani/CBMC/CaDiCaL; the hand-transcribed rules in harness/spec.rs. VhostUserShMemConfig and the GPU bodies have the default always-true validator and are not enumerated (only u64/vring-state/empty are asserted always-valid). xen feature off.",
   design="4/C20"),
}
NA = {
 "C16": "threads, JoinHandle::join, blocking recvmsg woken by shutdown(2), worker lifetime: not encodable for Kani/CBMC (no concurrency support); the termination-on-EOF ingredient is checked under C08",
}
WIP = "check not built yet in this round (work in progress; see DESIGN.md section 8)"
ALL = [f"C{i:02d}" for i in range(1, 21)]
hook_commits = subprocess.run(["git","-C","/repo","log","--format=%h %s"],capture_output=True,text=True).stdout.split("\n")
hook_commits = [l.split()[0] for l in hook_commits if l.startswith(tuple("0123456789abcdef")) and " verif:" in l]
m = {
 "version": 1,
 "setup_cmd": "./vcheck.py --setup --jobs 12",
 "hooks": {
   "guard": "cargo feature `verif` of the crates vhost and vhost-user-backend (off by default; with it off nothing is compiled in)",
   "enable": "VHOST_VERIF_DIR=/verif cargo kani -p <crate> --features verif,... -Z stubbing (done by vcheck.py); each hooked source file ends with `#[cfg(feature = \"verif\")] mod verif { include!(.../harness/<file>.rs) }`",
   "baseline_off_cmd": "cd /repo && cargo nextest run --workspace --no-fail-fast --tool-config-file pb:/w/lib/nextest.toml --profile pb --test-threads 8 --offline",
   "source_commits": hook_commits,
   "add_only": True,
 },
 "engines": [
   {"name": "kani", "path": "vcheck.py", "serves_properties": sorted(CLAIMS), "kind_free_text": "Kani 0.68 proof harnesses (harness/*.rs, included into /repo's crates as child modules) -> CBMC 6.11 -> CaDiCaL; driver vcheck.py schedules one cargo-kani process per slot, parses verdicts/cover witnesses/solver statistics, replays counterexamples (kani concrete playback, natively for stub-free harnesses)"},
 ],
 "checks": [],
 "not_applicable": [],
 "notes": "Exit codes of every command: 0 held, 1 VIOLATION line, 2 inconclusive (timeout/OOM/unwinding bound/vacuous cover/non-reproducing counterexample). Known findings: known_findings.json.",
}
for pid in ALL:
    if pid in CLAIMS:
        c = CLAIMS[pid]
        m["checks"].append({
          "property_id": pid,
          "quick_cmd": f"./vcheck.py {pid} --tier quick",
          "thorough_cmd": f"./vcheck.py {pid} --tier thorough",
          "evidence_file": f"evidence/{pid}.json",
          "replay_cmd_template": "cat {path}",
          "engine": "kani",
          "level_claimed": {"category": "model_checking", "text": c["text"], "design_ref": c["design"]},
          "level_note": c["note"],
          "technique": "solver-based bounded model checking of the real Rust code: Kani 0.68 proof harnesses -> CBMC 6.11 -> CaDiCaL (SAT), counterexample replay",
        })
    else:
        m["not_applicable"].append({"property_id": pid, "reason": NA.get(pid, WIP)})
json.dump(m, open("/verif/MANIFEST.json","w"), indent=1)
print("claimed:", sorted(CLAIMS), "n/a:", [x["property_id"] for x in m["not_applicable"]])
