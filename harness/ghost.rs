// Ghost kernel: the environment contract behind every entry-level harness of the vhost crate.
// The stubs replace vmm-sys-util's private raw_sendmsg / raw_recvmsg and libc::close
// (#[kani::stub], -Z stubbing).  Everything here is part of the claim (DESIGN.md 3.2).
//
// Model of one connected AF_UNIX stream socket seen from the code under test:
//   RX[0..RX_LEN]  bytes the peer has written (and will ever write); after them the peer is either
//                  closed (G.rx_closed) or alive-and-silent (then a further read blocks forever:
//                  G.blocked is set and 0 returned, harnesses assert !G.blocked).
//   G.rx_cut         delivery boundary: a single recvmsg never returns bytes from both sides of a cut
//                  (models segmentation); usize::MAX = no cut.
//   G.rx_nfds        descriptors attached (SCM_RIGHTS) to byte RX_FD_AT.
//   TX             everything the code under test sends, in order; per-call log of lengths/descriptors.
// Descriptor table: numbers 100.. are "installed by recvmsg"; close() marks them closed and flags
// double closes; closing anything the harness marked LENT is flagged.
use libc::{c_int, c_void, iovec};
use std::os::unix::io::RawFd;
use vmm_sys_util::errno;
use vmm_sys_util::sock_ctrl_msg::IntoIovec;

// CBMC keeps per-element constants only for arrays of at most 64 elements (field sensitivity); a
// larger array with one symbolic byte makes every read symbolic, the request code is no longer a
// constant and all 44 dispatch arms are explored.  Hence the wire buffers are split.
pub const RX_CAP: usize = 12 + 64 + 32;
pub const TX_CAP: usize = 128;
pub const FD_BASE: RawFd = 100;
pub const FD_N: usize = 8;
/// descriptor numbers of a "big batch" (more descriptors than the table tracks individually; counted only)
pub const FD_BIG_BASE: RawFd = 1000;
pub const FD_BIG_MAX: usize = 80;



// descriptor states
pub const FD_FREE: u8 = 0;
pub const FD_OPEN: u8 = 1;
pub const FD_CLOSED: u8 = 2;

// All ghost state lives in ONE static struct with a non-zero marker field.  Separate `static mut X: usize = 0`
// items are unusable under Kani 0.68: its codegen shares the storage of a static whose initial bytes equal
// those of some constant (observed: alloc::raw_vec's ZERO_CAP read the current value of G.rx_pos, so an empty
// Vec got capacity 12).
pub struct Ghost {
    pub rx_h: [u8; 12], // bytes 0..12 of the stream (first header)
    pub rx_b: [u8; 64], // bytes 12..76
    pub rx_c: [u8; 32], // bytes 76..108
    pub rx_len: usize,
    pub rx_pos: usize,
    pub rx_closed: bool,
    pub rx_cut: [usize; 2],
    pub rx_nfds: usize,
    pub rx_fd_call: usize, // index (1-based) of the receive call that carries the descriptors
    pub rx_calls: usize,
    pub blocked: bool,
    pub eof_returns: usize, // how often end-of-stream (0 bytes on a closed stream) was reported to the receiver
    pub eof_limit: usize,   // more reports than this = the receiver keeps polling a closed connection
    pub fds_discarded: usize, // descriptors the kernel dropped (no room / no control buffer)
    pub rx_big: usize,        // > 0: the peer attached this many descriptors (counted, not tracked one by one)
    pub big_open: usize,      // big-batch descriptors installed in this process
    pub big_closed: usize,    // ... and closed again
    pub tx_a: [u8; 64], // bytes 0..64 of everything sent
    pub tx_b: [u8; 64], // bytes 64..128
    pub tx_len: usize,  // total bytes accepted (may exceed TX_CAP; excess not stored)
    pub tx_calls: usize,
    pub tx_first_nfds: usize, // descriptors attached to the first send call
    pub tx_first_fd0: RawFd,
    pub tx_first_fd1: RawFd,
    pub tx_late_fds: bool,        // descriptors attached to any later call
    pub tx_call_at_rx_pos: usize, // rx_pos at the time of the first send
    pub tx_accept: usize,         // per-call accept limit (C08 sender side)
    pub tx_err_at_call: usize,    // 1-based index of the send call that fails once with tx_errno (0 = never)
    pub tx_errno: i32,
    pub tx_attempts: usize,
    pub fd_state: [u8; FD_N],
    pub fd_owned: [bool; FD_N], // handed to the application handler by value
    pub double_close: bool,
    pub lent_lo: RawFd, // descriptors in [lent_lo, lent_hi) are lent by the caller
    pub lent_hi: RawFd,
    pub lent_closed: bool,
    pub close_calls: usize,
    // C10: acquisitions of std::sync::Mutex (counted by the Mutex::lock stub), acquisition count at the
    // previous socket call, and whether a receive ran under another acquisition than the call before it
    pub lock_acq: u32,
    pub acq_prev: u32,
    pub lock_retaken: bool,
    pub marker: u64,
}
pub static mut G: Ghost = Ghost {
    rx_h: [0; 12],
    rx_b: [0; 64],
    rx_c: [0; 32],
    rx_len: 0,
    rx_pos: 0,
    rx_closed: false,
    rx_cut: [usize::MAX; 2],
    rx_nfds: 0,
    rx_fd_call: 1,
    rx_calls: 0,
    blocked: false,
    eof_returns: 0,
    eof_limit: 2,
    fds_discarded: 0,
    rx_big: 0,
    big_open: 0,
    big_closed: 0,
    tx_a: [0; 64],
    tx_b: [0; 64],
    tx_len: 0,
    tx_calls: 0,
    tx_first_nfds: 0,
    tx_first_fd0: -1,
    tx_first_fd1: -1,
    tx_late_fds: false,
    tx_call_at_rx_pos: usize::MAX,
    tx_accept: usize::MAX,
    tx_err_at_call: 0,
    tx_errno: 0,
    tx_attempts: 0,
    fd_state: [0; FD_N],
    fd_owned: [false; FD_N],
    double_close: false,
    lent_lo: -1,
    lent_hi: -1,
    lent_closed: false,
    close_calls: 0,
    lock_acq: 0,
    acq_prev: 0,
    lock_retaken: false,
    marker: 0x6a05_7fd1_93c4_11e7,
};

#[inline(always)]
pub unsafe fn rx8(o: usize) -> u8 {
    if o < 12 {
        G.rx_h[o]
    } else if o < 76 {
        G.rx_b[o - 12]
    } else {
        G.rx_c[o - 76]
    }
}
#[inline(always)]
pub unsafe fn rx_set(o: usize, v: u8) {
    if o < 12 {
        G.rx_h[o] = v;
    } else if o < 76 {
        G.rx_b[o - 12] = v;
    } else {
        G.rx_c[o - 76] = v;
    }
}
#[inline(always)]
pub unsafe fn tx8(o: usize) -> u8 {
    if o < 64 {
        G.tx_a[o]
    } else {
        G.tx_b[o - 64]
    }
}
#[inline(always)]
unsafe fn tx_set(o: usize, v: u8) {
    if o < 64 {
        G.tx_a[o] = v;
    } else {
        G.tx_b[o - 64] = v;
    }
}
#[inline(always)]
unsafe fn rx64(o: usize) -> u64 {
    (rx8(o) as u64)
        | ((rx8(o + 1) as u64) << 8)
        | ((rx8(o + 2) as u64) << 16)
        | ((rx8(o + 3) as u64) << 24)
        | ((rx8(o + 4) as u64) << 32)
        | ((rx8(o + 5) as u64) << 40)
        | ((rx8(o + 6) as u64) << 48)
        | ((rx8(o + 7) as u64) << 56)
}
#[inline(always)]
unsafe fn rx32(o: usize) -> u32 {
    (rx8(o) as u32) | ((rx8(o + 1) as u32) << 8) | ((rx8(o + 2) as u32) << 16) | ((rx8(o + 3) as u32) << 24)
}

macro_rules! w64 {
    ($dst:expr, $src:expr, $n:expr, $k:expr) => {
        if $n >= 8 * ($k + 1) {
            core::ptr::write_unaligned($dst.add(8 * $k) as *mut u64, rx64($src + 8 * $k));
        }
    };
}
/// copy n (<= 96) bytes RX[src..] -> dst without loops (word stores; constant-folds when n is concrete)
unsafe fn copy_out(dst: *mut u8, src: usize, n: usize) {
    w64!(dst, src, n, 0);
    w64!(dst, src, n, 1);
    w64!(dst, src, n, 2);
    w64!(dst, src, n, 3);
    w64!(dst, src, n, 4);
    w64!(dst, src, n, 5);
    w64!(dst, src, n, 6);
    w64!(dst, src, n, 7);
    w64!(dst, src, n, 8);
    w64!(dst, src, n, 9);
    w64!(dst, src, n, 10);
    w64!(dst, src, n, 11);
    let mut o = n & !7usize;
    if n & 4 != 0 {
        core::ptr::write_unaligned(dst.add(o) as *mut u32, rx32(src + o));
        o += 4;
    }
    if n & 2 != 0 {
        *dst.add(o) = rx8(src + o);
        *dst.add(o + 1) = rx8(src + o + 1);
        o += 2;
    }
    if n & 1 != 0 {
        *dst.add(o) = rx8(src + o);
    }
}

macro_rules! r64 {
    ($src:expr, $at:expr, $n:expr, $k:expr) => {
        if $n >= 8 * ($k + 1) && $at + 8 * ($k + 1) <= TX_CAP {
            let v = core::ptr::read_unaligned($src.add(8 * $k) as *const u64);
            tx_set($at + 8 * $k, v as u8);
            tx_set($at + 8 * $k + 1, (v >> 8) as u8);
            tx_set($at + 8 * $k + 2, (v >> 16) as u8);
            tx_set($at + 8 * $k + 3, (v >> 24) as u8);
            tx_set($at + 8 * $k + 4, (v >> 32) as u8);
            tx_set($at + 8 * $k + 5, (v >> 40) as u8);
            tx_set($at + 8 * $k + 6, (v >> 48) as u8);
            tx_set($at + 8 * $k + 7, (v >> 56) as u8);
        }
    };
}
/// append n bytes from src to TX (only the first TX_CAP bytes of the stream are stored; at most the
/// first 96 bytes of one iovec are stored, the rest only counted)
unsafe fn copy_in(src: *const u8, at: usize, n: usize) {
    r64!(src, at, n, 0);
    r64!(src, at, n, 1);
    r64!(src, at, n, 2);
    r64!(src, at, n, 3);
    r64!(src, at, n, 4);
    r64!(src, at, n, 5);
    r64!(src, at, n, 6);
    r64!(src, at, n, 7);
    r64!(src, at, n, 8);
    r64!(src, at, n, 9);
    r64!(src, at, n, 10);
    r64!(src, at, n, 11);
    if n < 96 {
        let mut o = n & !7usize;
        if n & 4 != 0 && at + o + 4 <= TX_CAP {
            let v = core::ptr::read_unaligned(src.add(o) as *const u32);
            tx_set(at + o, v as u8);
            tx_set(at + o + 1, (v >> 8) as u8);
            tx_set(at + o + 2, (v >> 16) as u8);
            tx_set(at + o + 3, (v >> 24) as u8);
            o += 4;
        }
        if n & 2 != 0 && at + o + 2 <= TX_CAP {
            tx_set(at + o, *src.add(o));
            tx_set(at + o + 1, *src.add(o + 1));
            o += 2;
        }
        if n & 1 != 0 && at + o + 1 <= TX_CAP {
            tx_set(at + o, *src.add(o));
        }
    }
}

/// stub for vmm_sys_util::sock_ctrl_msg::raw_recvmsg
pub unsafe fn ghost_recvmsg(_fd: RawFd, iovecs: &mut [iovec], in_fds: &mut [RawFd]) -> errno::Result<(usize, usize)> {
    G.rx_calls += 1;
    if G.rx_pos >= G.rx_len {
        if !G.rx_closed {
            G.blocked = true;
        } else {
            // end-of-stream: a receiver that was told so must give up; a bounded number of reports per harness is
            // legitimate (one per library call that finds the stream closed), more means it is polling a closed socket
            G.eof_returns += 1;
            assert!(G.eof_returns <= G.eof_limit, "C03/C08: the receiver keeps reading after end-of-stream was reported (no bounded-time error on a closed connection)");
        }
        return Ok((0, 0));
    }
    // how much this call may deliver
    let mut limit = G.rx_len;
    if G.rx_cut[0] > G.rx_pos && G.rx_cut[0] < limit {
        limit = G.rx_cut[0];
    }
    if G.rx_cut[1] > G.rx_pos && G.rx_cut[1] < limit {
        limit = G.rx_cut[1];
    }
    let avail = limit - G.rx_pos;
    let mut done = 0usize;
    let mut i = 0;
    while i < iovecs.len() && done < avail {
        let want = iovecs[i].iov_len;
        let n = if want < avail - done { want } else { avail - done };
        copy_out(iovecs[i].iov_base as *mut u8, G.rx_pos + done, n);
        done += n;
        i += 1;
    }
    let mut nfds = 0usize;
    G.rx_pos += done;
    // the descriptors ride on the first byte of the G.rx_fd_call-th receive (a concrete call index, so
    // that CBMC folds this branch; G.rx_nfds itself may be symbolic, at most FD_N)
    if G.rx_big > 0 && G.rx_calls == G.rx_fd_call {
        // a batch of rx_big descriptors: with fewer slots than descriptors the kernel truncates the control
        // message (MSG_CTRUNC), vmm-sys-util closes what arrived and reports ENOBUFS; otherwise every
        // descriptor is installed in this process and now belongs to the caller
        if in_fds.len() < G.rx_big {
            G.fds_discarded += G.rx_big;
            return Err(errno::Error::new(libc::ENOBUFS));
        }
        let mut i = 0;
        while i < G.rx_big {
            in_fds[i] = FD_BIG_BASE + i as RawFd;
            i += 1;
        }
        G.big_open = G.rx_big;
        return Ok((done, G.rx_big));
    }
    if G.rx_calls == G.rx_fd_call {
        if in_fds.len() < FD_N {
            // receive buffer without (enough) control space: MSG_CTRUNC -> vmm-sys-util closes
            // whatever arrived and reports ENOBUFS
            if G.rx_nfds > in_fds.len() {
                G.fds_discarded += G.rx_nfds;
                return Err(errno::Error::new(libc::ENOBUFS));
            }
        }
        if G.rx_nfds > 0 {
            G.fd_state[0] = FD_OPEN;
            in_fds[0] = FD_BASE;
        }
        if G.rx_nfds > 1 {
            G.fd_state[1] = FD_OPEN;
            in_fds[1] = FD_BASE + 1;
        }
        if G.rx_nfds > 2 {
            G.fd_state[2] = FD_OPEN;
            in_fds[2] = FD_BASE + 2;
        }
        nfds = G.rx_nfds;
    }
    Ok((done, nfds))
}

/// stub for vmm_sys_util::sock_ctrl_msg::raw_sendmsg (all bytes accepted unless G.tx_accept limits a call)
pub fn ghost_sendmsg<D: IntoIovec>(_fd: RawFd, out_data: &[D], out_fds: &[RawFd]) -> errno::Result<usize> {
    unsafe {
        G.tx_attempts += 1;
        if G.tx_err_at_call == G.tx_attempts {
            // one injected transient failure (EAGAIN / EINTR / ENOBUFS chosen by the harness): nothing is
            // accepted, neither bytes nor descriptors
            return Err(errno::Error::new(G.tx_errno));
        }
        if G.tx_calls == 0 {
            G.tx_first_nfds = out_fds.len();
            if out_fds.len() > 0 {
                G.tx_first_fd0 = out_fds[0];
            }
            if out_fds.len() > 1 {
                G.tx_first_fd1 = out_fds[1];
            }
            G.tx_call_at_rx_pos = G.rx_pos;
        } else if !out_fds.is_empty() {
            G.tx_late_fds = true;
        }
        G.tx_calls += 1;
        let mut total = 0usize;
        let mut i = 0;
        while i < out_data.len() {
            let mut n = out_data[i].size();
            if G.tx_accept != usize::MAX {
                // a non-blocking socket with a small send buffer accepts only a prefix
                let room = G.tx_accept - total;
                if n > room {
                    n = room;
                }
            }
            copy_in(out_data[i].as_ptr() as *const u8, G.tx_len + total, n);
            total += n;
            i += 1;
        }
        G.tx_len += total;
        Ok(total)
    }
}

/// stub for std::sync::Mutex::lock (C10).  The lock being held AT each socket call is not enough: request and
/// reply must lie in the SAME critical section.  The stub counts acquisitions and takes the lock with
/// try_lock: a lock that is already held could never be granted to this - the only - thread, i.e. the call
/// would deadlock on itself.
pub fn ghost_mutex_lock<T: ?Sized>(m: &std::sync::Mutex<T>) -> std::sync::LockResult<std::sync::MutexGuard<'_, T>> {
    // SAFETY: single-threaded harness
    unsafe { G.lock_acq += 1 };
    match m.try_lock() {
        Ok(guard) => Ok(guard),
        Err(std::sync::TryLockError::Poisoned(p)) => Err(p),
        Err(std::sync::TryLockError::WouldBlock) => {
            assert!(false, "C10: the call takes the endpoint lock while it already holds it (self-deadlock)");
            kani::assume(false);
            unreachable!()
        }
    }
}
/// C10 bookkeeping, called by the per-endpoint syscall stubs
pub unsafe fn note_send() {
    G.acq_prev = G.lock_acq;
}
pub unsafe fn note_recv() {
    if G.acq_prev != 0 && G.acq_prev != G.lock_acq {
        G.lock_retaken = true;
    }
    G.acq_prev = G.lock_acq;
}

/// stub for libc::close
pub unsafe extern "C" fn ghost_close(fd: c_int) -> c_int {
    G.close_calls += 1;
    if fd >= FD_BIG_BASE && fd < FD_BIG_BASE + FD_BIG_MAX as c_int {
        G.big_closed += 1;
    }
    if fd >= G.lent_lo && fd < G.lent_hi {
        G.lent_closed = true;
    }
    if fd >= FD_BASE && fd < FD_BASE + FD_N as c_int {
        let k = (fd - FD_BASE) as usize;
        if G.fd_state[k] == FD_OPEN {
            G.fd_state[k] = FD_CLOSED;
        } else {
            G.double_close = true;
        }
    }
    0
}

/// stub for <OwnedFd as Drop>::drop: std's implementation first probes the descriptor with fcntl and
/// may rtabort! (formatting to stderr) - both irrelevant to the properties and very expensive to encode
pub fn ghost_ownedfd_drop(fd: &mut std::os::fd::OwnedFd) {
    use std::os::fd::AsRawFd;
    // SAFETY: ghost bookkeeping only
    unsafe {
        ghost_close(fd.as_raw_fd());
    }
}

/// stub for std::thread::panicking (consulted by every MutexGuard drop for lock poisoning): harnesses are
/// single-threaded and a panic is a reported failure, so "not panicking" is exact
pub fn ghost_not_panicking() -> bool {
    false
}

/// stub for std::alloc::handle_alloc_error: allocation failure is outside every claim
pub fn ghost_alloc_error(_l: std::alloc::Layout) -> ! {
    kani::assume(false);
    loop {}
}

pub unsafe fn tx32(o: usize) -> u32 {
    (tx8(o) as u32) | ((tx8(o + 1) as u32) << 8) | ((tx8(o + 2) as u32) << 16) | ((tx8(o + 3) as u32) << 24)
}
pub unsafe fn tx64(o: usize) -> u64 {
    (tx32(o) as u64) | ((tx32(o + 4) as u64) << 32)
}
pub unsafe fn put32(o: usize, v: u32) {
    rx_set(o, v as u8);
    rx_set(o + 1, (v >> 8) as u8);
    rx_set(o + 2, (v >> 16) as u8);
    rx_set(o + 3, (v >> 24) as u8);
}
pub unsafe fn put64(o: usize, v: u64) {
    put32(o, v as u32);
    put32(o + 4, (v >> 32) as u32);
}
/// peer writes a 12-byte header
pub unsafe fn put_hdr(o: usize, code: u32, flags: u32, size: u32) {
    put32(o, code);
    put32(o + 4, flags);
    put32(o + 8, size);
}
#[allow(dead_code)]
fn _unused(_: *mut c_void) {}
