// Child module of vhost::vhost_user (hook in vhost/src/vhost_user/mod.rs).
// Hosts the shared oracle and ghost-kernel code used by the other harness modules.
#[allow(dead_code)]
pub(crate) mod spec {
    include!(concat!(env!("VHOST_VERIF_DIR"), "/harness/spec.rs"));
}
#[allow(dead_code)]
pub(crate) mod ghost {
    include!(concat!(env!("VHOST_VERIF_DIR"), "/harness/ghost.rs"));
}
