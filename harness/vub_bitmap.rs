// harnesses for vub_bitmap
