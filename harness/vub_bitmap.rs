// Child module of vhost_user_backend::bitmap.  C15: the page arithmetic of the dirty log, bit-exactly.
// AtomicBitmapMmap::new needs a GuestMemoryRegion object and SET_LOG_BASE needs GuestMemoryAtomic::memory()
// (ArcSwap: not compilable by Kani 0.68): both are NOT covered; the bitmaps are built by struct literal with
// the values `new` computes for a page-aligned region (pages_before_region = start/4096, number_of_pages =
// len/4096).
use super::*;
use std::mem::ManuallyDrop;

fn no_alloc_error(_l: std::alloc::Layout) -> ! {
    kani::assume(false);
    loop {}
}
fn mk_log(init: &[u8; 6]) -> [AtomicU8; 6] {
    [AtomicU8::new(init[0]), AtomicU8::new(init[1]), AtomicU8::new(init[2]), AtomicU8::new(init[3]), AtomicU8::new(init[4]), AtomicU8::new(init[5])]
}

// @harness props=C15 tier=quick reach=off timeout=900 bound="AtomicBitmapMmap::mark_dirty / dirty_at over a log window of 4 bytes (32 pages) inside a 6-byte array with guard bytes: region of 1..=32 pages starting at page 0..=31 that fits the log (page-aligned), write offset and length over ALL of usize, arbitrary initial log contents, every one of the 32 bits checked" stubs="handle_alloc_error"
#[kani::proof]
#[kani::unwind(36)]
#[kani::stub(std::alloc::handle_alloc_error, no_alloc_error)]
fn c15_u_mark_dirty() {
    let init: [u8; 6] = kani::any();
    let log = mk_log(&init);
    // the mapping is bytes 1..5; bytes 0 and 5 are guards
    // SAFETY: in bounds of `log`
    let logmem = ManuallyDrop::new(Arc::new(MmapLogReg { addr: unsafe { log.as_ptr().add(1) }, len: 4 }));
    let s: usize = kani::any();
    let n: usize = kani::any();
    kani::assume(n >= 1 && n <= 32 && s <= 31 && s + n <= 32); // what AtomicBitmapMmap::new accepts for this log
    let bm = ManuallyDrop::new(AtomicBitmapMmap { logmem: Arc::clone(&logmem), pages_before_region: s, number_of_pages: n });
    let off: usize = kani::any();
    let len: usize = kani::any();
    bm.mark_dirty(off, len);
    // oracle: pages of the region touched by the byte range [off, off+len) (saturating at usize::MAX)
    let p: usize = kani::any();
    kani::assume(p < 32);
    let before = init[1 + p / 8] & (1 << (p % 8)) != 0;
    let after = log[1 + p / 8].load(Ordering::Relaxed) & (1 << (p % 8)) != 0;
    let touched = len > 0 && p >= s && p < s + n && {
        let first = off / 4096;
        let last = off.saturating_add(len - 1) / 4096;
        (p - s) >= first && (p - s) <= last
    };
    kani::cover!(touched && !before && n > 9);
    assert!(after == (before || touched), "C15: exactly the bits of the touched pages are set (bit gpa/4096, least-significant bit first), no other bit changes");
    assert!(log[0].load(Ordering::Relaxed) == init[0] && log[5].load(Ordering::Relaxed) == init[5], "C15: nothing outside the log mapping is touched");
    // dirty_at reads the bit of the page an in-range offset belongs to; out-of-range offsets are clean
    let probe: usize = kani::any();
    let d = bm.dirty_at(probe);
    if probe / 4096 < n {
        let pp = s + probe / 4096;
        assert!(d == (log[1 + pp / 8].load(Ordering::Relaxed) & (1 << (pp % 8)) != 0), "C15: dirty_at reads the page's bit");
    } else {
        assert!(!d);
    }
}

// @harness props=C15 tier=quick reach=off timeout=600 bound="BitmapMmapRegion (shared, lock-protected handle): slice_at(base) then mark_dirty(offset, len) over ALL usize base/offset/len for a 3-page region at page 2; replace() at run time; absent bitmap = no-op" stubs="handle_alloc_error"
#[kani::proof]
#[kani::unwind(6)]
#[kani::stub(std::alloc::handle_alloc_error, no_alloc_error)]
fn c15_u_region_slice() {
    let init: [u8; 6] = kani::any();
    let log = mk_log(&init);
    // SAFETY: in bounds of `log`
    let logmem = ManuallyDrop::new(Arc::new(MmapLogReg { addr: unsafe { log.as_ptr().add(1) }, len: 4 }));
    let (s, n) = (2usize, 3usize);
    let b = ManuallyDrop::new(BitmapMmapRegion::default());
    // before SET_LOG_BASE there is no bitmap: writes are not logged, nothing is dirty
    b.mark_dirty(kani::any(), kani::any());
    assert!(!b.dirty_at(kani::any()));
    assert!(log[1].load(Ordering::Relaxed) == init[1] && log[2].load(Ordering::Relaxed) == init[2]);
    // run-time replacement (what SET_LOG_BASE does for every region)
    b.replace(AtomicBitmapMmap { logmem: Arc::clone(&logmem), pages_before_region: s, number_of_pages: n });
    let base: usize = kani::any();
    let sl1 = ManuallyDrop::new(b.slice_at(base));
    // ... and a slice of that slice (vm-memory hands out nested volatile slices): offsets accumulate
    let base2: usize = kani::any();
    let sl = ManuallyDrop::new(sl1.slice_at(base2));
    let base = base.saturating_add(base2);
    let off: usize = kani::any();
    let len: usize = kani::any();
    sl.mark_dirty(off, len);
    let p: usize = kani::any();
    kani::assume(p < 32);
    let before = init[1 + p / 8] & (1 << (p % 8)) != 0;
    let after = log[1 + p / 8].load(Ordering::Relaxed) & (1 << (p % 8)) != 0;
    // a slice whose base does not overflow addresses bytes base+off..; an overflowing start touches nothing
    let touched = match base.checked_add(off) {
        Some(st) if len > 0 => {
            let first = st / 4096;
            let last = st.saturating_add(len - 1) / 4096;
            p >= s && p < s + n && (p - s) >= first && (p - s) <= last
        }
        _ => false,
    };
    kani::cover!(touched && !before);
    assert!(after == (before || touched), "C15: a write through a region slice marks exactly the pages it touches");
    assert!(log[0].load(Ordering::Relaxed) == init[0] && log[5].load(Ordering::Relaxed) == init[5], "C15: guards untouched");
}

/// minimal guest memory region (address range only) for AtomicBitmapMmap::new, which only asks a region
/// for its start address and length
struct RangeOnly {
    start: u64,
    len: u64,
}
impl GuestMemoryRegion for RangeOnly {
    type B = ();
    fn len(&self) -> vm_memory::GuestUsize {
        self.len
    }
    fn start_addr(&self) -> vm_memory::GuestAddress {
        vm_memory::GuestAddress(self.start)
    }
    fn bitmap(&self) -> vm_memory::bitmap::BS<'_, ()> {}
}
impl vm_memory::GuestMemoryRegionBytes for RangeOnly {}

// @harness props=C15 tier=quick reach=off timeout=600 bound="AtomicBitmapMmap::new (the per-region acceptance rule of SET_LOG_BASE): page-aligned region of 1..=64 pages starting at page 0..=64, log of 1..=8 bytes: accepted iff the log covers the highest page; computed page offset/count" stubs="handle_alloc_error"
#[kani::proof]
#[kani::unwind(4)]
#[kani::stub(std::alloc::handle_alloc_error, no_alloc_error)]
fn c15_u_new_accepts_iff_log_covers() {
    let log: [AtomicU8; 8] = [AtomicU8::new(0), AtomicU8::new(0), AtomicU8::new(0), AtomicU8::new(0), AtomicU8::new(0), AtomicU8::new(0), AtomicU8::new(0), AtomicU8::new(0)];
    let l: usize = kani::any();
    kani::assume(l >= 1 && l <= 8);
    let logmem = ManuallyDrop::new(Arc::new(MmapLogReg { addr: log.as_ptr(), len: l }));
    let s: u64 = kani::any();
    let n: u64 = kani::any();
    kani::assume(s <= 64 && n >= 1 && n <= 64);
    let region = RangeOnly { start: s * 4096, len: n * 4096 };
    let r = <AtomicBitmapMmap as MemRegionBitmap>::new(&region, Arc::clone(&logmem));
    let highest_page = s + n - 1;
    let fits = (highest_page / 8) < l as u64;
    kani::cover!(r.is_ok() && l == 3);
    match &r {
        Ok(bm) => {
            assert!(fits, "C15: a log too small for the highest guest page must be rejected");
            assert!(bm.pages_before_region as u64 == s && bm.number_of_pages as u64 == n, "C15: region page offset / page count");
        }
        Err(_) => assert!(!fits, "C15: a log large enough for the highest guest page must be accepted"),
    }
    std::mem::forget(r);
}
