// Child module of vhost_user_backend::bitmap.  C15: the page arithmetic of the dirty log, bit-exactly.
use super::*;
use std::mem::ManuallyDrop;
use vm_memory::{GuestAddress, GuestRegionMmap, MmapRegion};

unsafe extern "C" fn one_page(_name: libc::c_int) -> libc::c_long {
    1 // "page size" 1 for MmapRegion::build_raw's alignment check (the mapping is never dereferenced)
}
fn no_alloc_error(_l: std::alloc::Layout) -> ! {
    kani::assume(false);
    loop {}
}
static mut BACKING: ([u8; 16], u64) = ([0; 16], 0x6269_746d_6170_0001);

// @harness props=C15 tier=quick timeout=900 bound="log window of 4 bytes (32 pages) inside a 6-byte array with guard bytes; one guest region of 1..=40 pages starting at page 0..=39 (page-aligned); symbolic slice base, write offset and length over all of usize; arbitrary initial log contents; every one of the 32 bits checked" stubs="sysconf (page size), handle_alloc_error"
#[kani::proof]
#[kani::unwind(44)]
#[kani::stub(libc::sysconf, one_page)]
#[kani::stub(std::alloc::handle_alloc_error, no_alloc_error)]
fn c15_u_mark_dirty() {
    let init: [u8; 6] = kani::any();
    let log: [AtomicU8; 6] = [
        AtomicU8::new(init[0]), AtomicU8::new(init[1]), AtomicU8::new(init[2]),
        AtomicU8::new(init[3]), AtomicU8::new(init[4]), AtomicU8::new(init[5]),
    ];
    // the mapping is bytes 1..5; bytes 0 and 5 are guards
    // SAFETY: in bounds of `log`
    let logmem = ManuallyDrop::new(Arc::new(MmapLogReg { addr: unsafe { log.as_ptr().add(1) }, len: 4 }));
    let s: usize = kani::any();
    let n: usize = kani::any();
    kani::assume(s <= 39 && n >= 1 && n <= 40);
    #[allow(static_mut_refs)]
    // SAFETY: address only, never dereferenced
    let region = unsafe { MmapRegion::<()>::build_raw(BACKING.0.as_mut_ptr(), n * 4096, 0, 0) }.unwrap();
    let gr = ManuallyDrop::new(GuestRegionMmap::new(region, GuestAddress((s * 4096) as u64)).unwrap());
    let bm = <AtomicBitmapMmap as MemRegionBitmap>::new(&*gr, Arc::clone(&logmem));
    // C15: accepted iff the log covers the region's highest page
    let fits = (s + n - 1) / 8 < 4;
    kani::cover!(fits && n > 8);
    match bm {
        Err(e) => {
            assert!(!fits, "C15: a log large enough for the highest guest page must be accepted");
            std::mem::forget(e);
        }
        Ok(bm) => {
            assert!(fits, "C15: a log too small for the highest guest page must be rejected");
            let b = ManuallyDrop::new(BitmapMmapRegion { inner: Arc::new(RwLock::new(Some(bm))), base_address: 0 });
            let base: usize = kani::any();
            let sl = ManuallyDrop::new(b.slice_at(base));
            let off: usize = kani::any();
            let len: usize = kani::any();
            sl.mark_dirty(off, len);
            // oracle: pages of the region touched by [base+off, base+off+len)
            let start = base.checked_add(off); // slice_at saturates; a saturated base cannot hold further bytes
            let p: usize = kani::any();
            kani::assume(p < 32);
            let before = init[1 + p / 8] & (1 << (p % 8)) != 0;
            let after = log[1 + p / 8].load(Ordering::Relaxed) & (1 << (p % 8)) != 0;
            let touched = match start {
                Some(st) if len > 0 && base != usize::MAX => {
                    let first = st / 4096;
                    let last = st.saturating_add(len - 1) / 4096;
                    p >= s && p < s + n && (p - s) >= first && (p - s) <= last
                }
                _ => false,
            };
            if base != usize::MAX {
                assert!(after == (before || touched), "C15: exactly the bits of the touched pages are set (bit gpa/4096, LSB first), no other bit changes");
            } else {
                assert!(!before || after, "C15: bits are never cleared");
            }
            assert!(log[0].load(Ordering::Relaxed) == init[0] && log[5].load(Ordering::Relaxed) == init[5], "C15: nothing outside the log mapping is touched");
            // dirty_at agrees with the log for in-range offsets of the region
            let probe: usize = kani::any();
            kani::assume(probe < n * 4096);
            let pp = s + probe / 4096;
            assert!(b.dirty_at(probe) == (log[1 + pp / 8].load(Ordering::Relaxed) & (1 << (pp % 8)) != 0), "C15: dirty_at reads the bit of the page");
        }
    }
}
