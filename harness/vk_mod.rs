// Child module of vhost::vhost_kern.  C19: every operation issues exactly the UAPI ioctl with the UAPI
// layout.  The oracle (`uapi::*`) is generated at check time from /usr/include/linux/vhost.h by uapi/gen.c.
use super::*;
use crate::backend::VhostBackend;
use libc::{c_int, c_ulong};
use vm_memory::{GuestMemoryMmap, GuestRegionMmap, MmapRegion};

#[allow(dead_code)]
pub(crate) mod uapi {
    include!(concat!(env!("VHOST_VERIF_DIR"), "/.work/uapi_table.rs"));
}

/// what the ghost kernel saw on the control descriptor
pub(crate) struct KGhost {
    pub calls: usize,
    pub req: u64,
    pub fd: i32,
    pub arg: [u8; 64],
    pub arg_len: usize,
    pub has_arg: bool,
    pub ptr_len: usize,   // bytes to capture for ioctl_with_ptr (variable-size structs)
    pub wb: [u8; 16],     // bytes the kernel writes back into a mutable argument
    pub wb_off: usize,    // ... starting at this offset
    pub wb_len: usize,
    pub wcalls: usize,    // write(2) calls
    pub wbuf: [u8; 64],
    pub wlen: usize,
    pub marker: u64,
}
pub(crate) static mut KG: KGhost = KGhost {
    calls: 0, req: 0, fd: -1, arg: [0; 64], arg_len: 0, has_arg: false, ptr_len: 0, wb: [0; 16], wb_off: 0, wb_len: 0,
    wcalls: 0, wbuf: [0; 64], wlen: 0, marker: 0x4b47_686f_7374_0001,
};
#[allow(static_mut_refs)]
pub(crate) fn kg() -> &'static mut KGhost {
    // SAFETY: single-threaded harness
    unsafe { &mut KG }
}
macro_rules! cap8 {
    ($dst:expr, $src:expr, $n:expr, $k:expr) => {
        if $n > $k {
            $dst[$k] = *$src.add($k);
        }
    };
}
/// capture up to 64 argument bytes without loops
unsafe fn capture(dst: &mut [u8; 64], src: *const u8, n: usize) {
    cap8!(dst, src, n, 0); cap8!(dst, src, n, 1); cap8!(dst, src, n, 2); cap8!(dst, src, n, 3);
    cap8!(dst, src, n, 4); cap8!(dst, src, n, 5); cap8!(dst, src, n, 6); cap8!(dst, src, n, 7);
    cap8!(dst, src, n, 8); cap8!(dst, src, n, 9); cap8!(dst, src, n, 10); cap8!(dst, src, n, 11);
    cap8!(dst, src, n, 12); cap8!(dst, src, n, 13); cap8!(dst, src, n, 14); cap8!(dst, src, n, 15);
    cap8!(dst, src, n, 16); cap8!(dst, src, n, 17); cap8!(dst, src, n, 18); cap8!(dst, src, n, 19);
    cap8!(dst, src, n, 20); cap8!(dst, src, n, 21); cap8!(dst, src, n, 22); cap8!(dst, src, n, 23);
    cap8!(dst, src, n, 24); cap8!(dst, src, n, 25); cap8!(dst, src, n, 26); cap8!(dst, src, n, 27);
    cap8!(dst, src, n, 28); cap8!(dst, src, n, 29); cap8!(dst, src, n, 30); cap8!(dst, src, n, 31);
    cap8!(dst, src, n, 32); cap8!(dst, src, n, 33); cap8!(dst, src, n, 34); cap8!(dst, src, n, 35);
    cap8!(dst, src, n, 36); cap8!(dst, src, n, 37); cap8!(dst, src, n, 38); cap8!(dst, src, n, 39);
    cap8!(dst, src, n, 40); cap8!(dst, src, n, 41); cap8!(dst, src, n, 42); cap8!(dst, src, n, 43);
    cap8!(dst, src, n, 44); cap8!(dst, src, n, 45); cap8!(dst, src, n, 46); cap8!(dst, src, n, 47);
    cap8!(dst, src, n, 48); cap8!(dst, src, n, 49); cap8!(dst, src, n, 50); cap8!(dst, src, n, 51);
    cap8!(dst, src, n, 52); cap8!(dst, src, n, 53); cap8!(dst, src, n, 54); cap8!(dst, src, n, 55);
    cap8!(dst, src, n, 56); cap8!(dst, src, n, 57); cap8!(dst, src, n, 58); cap8!(dst, src, n, 59);
    cap8!(dst, src, n, 60); cap8!(dst, src, n, 61); cap8!(dst, src, n, 62); cap8!(dst, src, n, 63);
}
unsafe fn note(fd: i32, req: c_ulong) {
    let k = kg();
    k.calls += 1;
    k.req = req as u64;
    k.fd = fd;
}
macro_rules! wb1 {
    ($p:expr, $k:expr, $i:expr) => {
        if $i < $k.wb_len {
            *$p.add($k.wb_off + $i) = $k.wb[$i];
        }
    };
}
unsafe fn writeback(p: *mut u8) {
    let k = kg();
    wb1!(p, k, 0); wb1!(p, k, 1); wb1!(p, k, 2); wb1!(p, k, 3); wb1!(p, k, 4); wb1!(p, k, 5); wb1!(p, k, 6); wb1!(p, k, 7);
    wb1!(p, k, 8); wb1!(p, k, 9); wb1!(p, k, 10); wb1!(p, k, 11); wb1!(p, k, 12); wb1!(p, k, 13); wb1!(p, k, 14); wb1!(p, k, 15);
}
// ---- stubs for vmm_sys_util::ioctl::* (the kernel always succeeds: the failure path reads errno through
// __errno_location, which Kani cannot model; it is outside the claim)
pub(crate) unsafe fn k_ioctl<F: AsRawFd>(fd: &F, req: c_ulong) -> c_int {
    note(fd.as_raw_fd(), req);
    kg().has_arg = false;
    0
}
pub(crate) unsafe fn k_ioctl_with_ref<F: AsRawFd, T>(fd: &F, req: c_ulong, arg: &T) -> c_int {
    note(fd.as_raw_fd(), req);
    let k = kg();
    k.has_arg = true;
    k.arg_len = core::mem::size_of::<T>();
    capture(&mut k.arg, arg as *const T as *const u8, core::mem::size_of::<T>());
    0
}
pub(crate) unsafe fn k_ioctl_with_mut_ref<F: AsRawFd, T>(fd: &F, req: c_ulong, arg: &mut T) -> c_int {
    note(fd.as_raw_fd(), req);
    let k = kg();
    k.has_arg = true;
    k.arg_len = core::mem::size_of::<T>();
    capture(&mut k.arg, arg as *const T as *const u8, core::mem::size_of::<T>());
    writeback(arg as *mut T as *mut u8);
    0
}
pub(crate) unsafe fn k_ioctl_with_ptr<F: AsRawFd, T>(fd: &F, req: c_ulong, arg: *const T) -> c_int {
    note(fd.as_raw_fd(), req);
    let k = kg();
    k.has_arg = true;
    k.arg_len = k.ptr_len;
    capture(&mut k.arg, arg as *const u8, k.ptr_len);
    0
}
pub(crate) unsafe extern "C" fn k_write(fd: c_int, buf: *const c_void, count: libc::size_t) -> ssize_t {
    let k = kg();
    k.wcalls += 1;
    k.fd = fd;
    k.wlen = count;
    capture(&mut k.wbuf, buf as *const u8, count);
    count as ssize_t
}
pub(crate) unsafe extern "C" fn k_sysconf(_name: c_int) -> libc::c_long {
    1 // "page size" 1: every pointer is page aligned for MmapRegion::build_raw
}
pub(crate) fn k_alloc_error(_l: std::alloc::Layout) -> ! {
    kani::assume(false);
    loop {}
}

pub(crate) const KFD: RawFd = 9;
pub(crate) const MEM_SIZE: usize = 0x4000;
#[repr(align(4096))]
pub(crate) struct Backing(pub [u8; 64]);
pub(crate) static mut BACKING: Backing = Backing([0x5a; 64]);
/// one guest region [base, base+MEM_SIZE) whose host mapping starts at BACKING (never dereferenced)
pub(crate) fn guest_mem(base: u64) -> &'static GuestMemoryMmap<()> {
    #[allow(static_mut_refs)]
    // SAFETY: the mapping is only used for address arithmetic in these harnesses
    let region = unsafe { MmapRegion::<()>::build_raw(BACKING.0.as_mut_ptr(), MEM_SIZE, 0, 0) }.unwrap();
    let gr = GuestRegionMmap::new(region, GuestAddress(base)).unwrap();
    Box::leak(Box::new(GuestMemoryMmap::from_regions(vec![gr]).unwrap()))
}
/// guest memory without regions: enough for every operation that never looks at guest addresses
pub(crate) fn empty_mem() -> &'static GuestMemoryMmap<()> {
    Box::leak(Box::new(GuestMemoryMmap::<()>::new()))
}
pub(crate) fn host_base() -> u64 {
    #[allow(static_mut_refs)]
    // SAFETY: address only
    unsafe { BACKING.0.as_ptr() as u64 }
}

pub(crate) struct K<'a> {
    mem: &'a GuestMemoryMmap<()>,
    acked: u64,
}
impl<'a> AsRawFd for K<'a> {
    fn as_raw_fd(&self) -> RawFd { KFD }
}
impl<'a> VhostKernBackend for K<'a> {
    type AS = &'a GuestMemoryMmap<()>;
    fn mem(&self) -> &Self::AS { &self.mem }
}
impl<'a> VhostKernFeatures for K<'a> {
    fn get_backend_features_acked(&self) -> u64 { self.acked }
    fn set_backend_features_acked(&mut self, features: u64) { self.acked = features; }
}

pub(crate) fn a32(o: usize) -> u32 { crate_rd32(&kg().arg, o) }
pub(crate) fn a64(o: usize) -> u64 { (crate_rd32(&kg().arg, o) as u64) | ((crate_rd32(&kg().arg, o + 4) as u64) << 32) }
fn crate_rd32(b: &[u8; 64], o: usize) -> u32 {
    (b[o] as u32) | ((b[o + 1] as u32) << 8) | ((b[o + 2] as u32) << 16) | ((b[o + 3] as u32) << 24)
}
pub(crate) fn w64(o: usize) -> u64 { (crate_rd32(&kg().wbuf, o) as u64) | ((crate_rd32(&kg().wbuf, o + 4) as u64) << 32) }
pub(crate) fn w32(o: usize) -> u32 { crate_rd32(&kg().wbuf, o) }
pub(crate) fn reset() {
    let k = kg();
    k.calls = 0; k.req = 0; k.has_arg = false; k.arg_len = 0; k.wcalls = 0; k.wlen = 0;
}
pub(crate) fn expect_ioctl(req: u64, len: usize) {
    let k = kg();
    assert!(k.calls == 1, "C19: exactly one ioctl per operation");
    assert!(k.fd == KFD, "C19: ioctl on the backend's descriptor");
    assert!(k.req == req, "C19: request number = UAPI (direction, type, number, size)");
    assert!(k.has_arg == (len != 0) && (len == 0 || k.arg_len == len), "C19: argument size = UAPI struct size");
}

macro_rules! k_proof {
    ($(#[$m:meta])* fn $name:ident() $body:block) => {
        $(#[$m])*
        #[kani::proof]
        #[kani::unwind(10)]
        #[kani::stub(vmm_sys_util::ioctl::ioctl, k_ioctl)]
        #[kani::stub(vmm_sys_util::ioctl::ioctl_with_ref, k_ioctl_with_ref)]
        #[kani::stub(vmm_sys_util::ioctl::ioctl_with_mut_ref, k_ioctl_with_mut_ref)]
        #[kani::stub(vmm_sys_util::ioctl::ioctl_with_ptr, k_ioctl_with_ptr)]
        #[kani::stub(std::alloc::handle_alloc_error, k_alloc_error)]
        fn $name() $body
    };
}
pub(crate) use k_proof;
macro_rules! k_proof3 {
    ($(#[$m:meta])* fn $name:ident() $body:block) => {
        $(#[$m])*
        #[kani::proof]
        #[kani::unwind(3)]
        #[kani::stub(vmm_sys_util::ioctl::ioctl, k_ioctl)]
        #[kani::stub(vmm_sys_util::ioctl::ioctl_with_ref, k_ioctl_with_ref)]
        #[kani::stub(vmm_sys_util::ioctl::ioctl_with_mut_ref, k_ioctl_with_mut_ref)]
        #[kani::stub(vmm_sys_util::ioctl::ioctl_with_ptr, k_ioctl_with_ptr)]
        #[kani::stub(std::alloc::handle_alloc_error, k_alloc_error)]
        fn $name() $body
    };
}

fn mk() -> K<'static> {
    K { mem: empty_mem(), acked: kani::any() }
}
const ST: &str = "";

// @harness props=C19 tier=quick reach=off bound="get/set_features, get/set_backend_features: all 64-bit values" stubs="vmm_sys_util::ioctl::* (ghost kernel: captures request+argument, writes back symbolic result, always succeeds), sysconf"
k_proof! { fn c19_features() {
    let mut k = mk();
    let back: u64 = kani::any();
    kg().wb = [0; 16];
    kg().wb_len = 8;
    let bb = back.to_le_bytes();
    kg().wb[..8].copy_from_slice(&bb);
    let r = k.get_features();
    expect_ioctl(uapi::U_VHOST_GET_FEATURES, 8);
    assert!(matches!(r, Ok(v) if v == back), "C19: returns what the kernel wrote back");
    std::mem::forget(r);
    reset();
    let f: u64 = kani::any();
    let r = k.set_features(f);
    expect_ioctl(uapi::U_VHOST_SET_FEATURES, 8);
    assert!(a64(0) == f && r.is_ok(), "C19: argument carries the caller's value");
    std::mem::forget(r);
    reset();
    let r = k.get_backend_features();
    expect_ioctl(uapi::U_VHOST_GET_BACKEND_FEATURES, 8);
    assert!(matches!(r, Ok(v) if v == back));
    std::mem::forget(r);
    reset();
    kg().wb_len = 0;
    let r = k.set_backend_features(f);
    expect_ioctl(uapi::U_VHOST_SET_BACKEND_FEATURES, 8);
    assert!(a64(0) == f && r.is_ok() && k.get_backend_features_acked() == f);
    std::mem::forget(r);
} }

// @harness props=C19 tier=quick reach=off bound="set_owner, reset_owner, set_log_base (with/without region), set_log_fd: all values" stubs="vmm_sys_util::ioctl::*, sysconf"
k_proof! { fn c19_owner_log() {
    let k = mk();
    let r = k.set_owner();
    expect_ioctl(uapi::U_VHOST_SET_OWNER, 0);
    std::mem::forget(r);
    reset();
    let r = k.reset_owner();
    expect_ioctl(uapi::U_VHOST_RESET_OWNER, 0);
    std::mem::forget(r);
    reset();
    let base: u64 = kani::any();
    let r = k.set_log_base(base, None);
    expect_ioctl(uapi::U_VHOST_SET_LOG_BASE, 8);
    assert!(a64(0) == base && r.is_ok());
    std::mem::forget(r);
    reset();
    let r = k.set_log_base(base, Some(VhostUserDirtyLogRegion { mmap_size: kani::any(), mmap_offset: kani::any(), mmap_handle: 3 }));
    assert!(r.is_err() && kg().calls == 0, "C19: a log region is refused before any ioctl");
    std::mem::forget(r);
    reset();
    let fd: RawFd = kani::any();
    let r = k.set_log_fd(fd);
    expect_ioctl(uapi::U_VHOST_SET_LOG_FD, 4);
    assert!(a32(0) == fd as u32 && r.is_ok());
    std::mem::forget(r);
} }

// @harness props=C19 tier=quick reach=off bound="set_vring_num, set_vring_base, get_vring_base: all queue indexes (usize) and 16-bit values" stubs="vmm_sys_util::ioctl::*, sysconf"
k_proof! { fn c19_vring_state() {
    let k = mk();
    let qi: usize = kani::any();
    let num: u16 = kani::any();
    let r = k.set_vring_num(qi, num);
    expect_ioctl(uapi::U_VHOST_SET_VRING_NUM, uapi::USZ_VRING_STATE);
    assert!(a32(uapi::UOFF_VRING_STATE_INDEX) == qi as u32 && a32(uapi::UOFF_VRING_STATE_NUM) == num as u32 && r.is_ok());
    std::mem::forget(r);
    reset();
    let r = k.set_vring_base(qi, num);
    expect_ioctl(uapi::U_VHOST_SET_VRING_BASE, uapi::USZ_VRING_STATE);
    assert!(a32(uapi::UOFF_VRING_STATE_INDEX) == qi as u32 && a32(uapi::UOFF_VRING_STATE_NUM) == num as u32);
    std::mem::forget(r);
    reset();
    let back: u32 = kani::any();
    kg().wb[..4].copy_from_slice(&back.to_le_bytes());
    kg().wb_off = uapi::UOFF_VRING_STATE_NUM;
    kg().wb_len = 4;
    let r = k.get_vring_base(qi);
    expect_ioctl(uapi::U_VHOST_GET_VRING_BASE, uapi::USZ_VRING_STATE);
    assert!(a32(uapi::UOFF_VRING_STATE_INDEX) == qi as u32);
    assert!(matches!(r, Ok(v) if v == back), "C19: returns the base the kernel wrote back");
    std::mem::forget(r);
} }

// @harness props=C19 tier=quick reach=off bound="set_vring_kick/call/err: all queue indexes" stubs="vmm_sys_util::ioctl::*, sysconf"
k_proof! { fn c19_vring_files() {
    use std::os::unix::io::FromRawFd;
    let k = mk();
    let qi: usize = kani::any();
    // SAFETY: descriptor number only
    let ev = std::mem::ManuallyDrop::new(unsafe { EventFd::from_raw_fd(33) });
    let r = k.set_vring_kick(qi, &ev);
    expect_ioctl(uapi::U_VHOST_SET_VRING_KICK, uapi::USZ_VRING_FILE);
    assert!(a32(uapi::UOFF_VRING_FILE_INDEX) == qi as u32 && a32(uapi::UOFF_VRING_FILE_FD) == 33);
    std::mem::forget(r);
    reset();
    let r = k.set_vring_call(qi, &ev);
    expect_ioctl(uapi::U_VHOST_SET_VRING_CALL, uapi::USZ_VRING_FILE);
    assert!(a32(uapi::UOFF_VRING_FILE_INDEX) == qi as u32 && a32(uapi::UOFF_VRING_FILE_FD) == 33);
    std::mem::forget(r);
    reset();
    let r = k.set_vring_err(qi, &ev);
    expect_ioctl(uapi::U_VHOST_SET_VRING_ERR, uapi::USZ_VRING_FILE);
    assert!(a32(uapi::UOFF_VRING_FILE_INDEX) == qi as u32 && a32(uapi::UOFF_VRING_FILE_FD) == 33);
    std::mem::forget(r);
} }

fn mem_table(n: usize) {
    let k = mk();
    let r0 = VhostUserMemoryRegionInfo { guest_phys_addr: kani::any(), memory_size: kani::any(), userspace_addr: kani::any(), mmap_offset: kani::any(), mmap_handle: 3 };
    let r1 = VhostUserMemoryRegionInfo { guest_phys_addr: kani::any(), memory_size: kani::any(), userspace_addr: kani::any(), mmap_offset: kani::any(), mmap_handle: 4 };
    let regs = [r0, r1];
    kg().ptr_len = uapi::UOFF_MEMORY_REGIONS + n * uapi::USZ_MEMORY_REGION; // what the kernel reads: header + nregions entries
    let r = k.set_mem_table(&regs[..n]);
    kani::cover!(r.is_ok() == (n > 0));
    if n == 0 {
        assert!(r.is_err() && kg().calls == 0, "C19: empty table refused before any ioctl");
    } else {
        assert!(r.is_ok() && kg().calls == 1 && kg().req == uapi::U_VHOST_SET_MEM_TABLE && kg().fd == KFD);
        assert!(a32(uapi::UOFF_MEMORY_NREGIONS) == n as u32, "C19: region count");
        let o = uapi::UOFF_MEMORY_REGIONS;
        assert!(a64(o + uapi::UOFF_MEMORY_REGION_GPA) == r0.guest_phys_addr && a64(o + uapi::UOFF_MEMORY_REGION_SIZE) == r0.memory_size
            && a64(o + uapi::UOFF_MEMORY_REGION_UADDR) == r0.userspace_addr, "C19: region 0 at UAPI offsets");
        if n == 2 {
            let o = o + uapi::USZ_MEMORY_REGION;
            assert!(a64(o + uapi::UOFF_MEMORY_REGION_GPA) == r1.guest_phys_addr && a64(o + uapi::UOFF_MEMORY_REGION_SIZE) == r1.memory_size
                && a64(o + uapi::UOFF_MEMORY_REGION_UADDR) == r1.userspace_addr, "C19: region 1 at UAPI offsets");
        }
    }
    std::mem::forget(r);
}
// @harness props=C19 tier=quick reach=off bound="set_mem_table with 2 regions: all 64-bit region values (the region count is concrete: a symbolic count makes the flexible-array allocation symbolic)" stubs="vmm_sys_util::ioctl::*"
k_proof! { fn c19_mem_table_2() { mem_table(2) } }
// @harness props=C19 tier=quick reach=off bound="set_mem_table with 1 region: all 64-bit region values" stubs="vmm_sys_util::ioctl::*"
k_proof! { fn c19_mem_table_1() { mem_table(1) } }
// @harness props=C19 tier=quick reach=off bound="set_mem_table with an empty table: refused, no ioctl" stubs="vmm_sys_util::ioctl::*"
k_proof! { fn c19_mem_table_0() { mem_table(0) } }

/// reference validity of a ring configuration against one guest region [base, base+MEM_SIZE)
pub(crate) fn ref_ring_valid(c: &VringConfigData, base: u64, check_addrs: bool) -> bool {
    let q = c.queue_size as u64;
    if q == 0 || q > c.queue_max_size as u64 || (q & (q - 1)) != 0 {
        return false;
    }
    if c.flags & 1 != 0 && c.log_addr.is_none() {
        return false;
    }
    if !check_addrs {
        return true;
    }
    let inr = |a: u64, len: u64| -> bool {
        // last byte + 1 must still be an address inside the region (the library's own notion: end address in range)
        match a.checked_add(len) {
            Some(e) => e >= base && e < base + MEM_SIZE as u64,
            None => false,
        }
    };
    inr(c.desc_table_addr, 16 * q) && inr(c.avail_ring_addr, 6 + 2 * q) && inr(c.used_ring_addr, 6 + 8 * q)
}

// Kernel-vhost set_vring_addr: the acceptance path (addresses inside a guest region, guest->host address
// translation) needs a populated GuestMemoryMmap; its region lookup did not finish under CBMC (1.1M steps,
// no verdict in 400 s with one region) and is NOT covered.  What is covered: over a guest memory without
// regions every configuration is refused and no ioctl is issued (in particular zero / non-power-of-two /
// over-maximum sizes and the log flag without a log address).
// @harness props=C19 tier=quick reach=off bound="set_vring_addr (kernel vhost) over a guest memory without regions: all ring sizes/addresses/flags/log address; refused before any ioctl" stubs="vmm_sys_util::ioctl::*"
k_proof! { fn c19_vring_addr_refused() {
    let k = mk();
    let qi: usize = kani::any();
    let c = VringConfigData {
        queue_max_size: kani::any(), queue_size: kani::any(), flags: kani::any(),
        desc_table_addr: kani::any(), used_ring_addr: kani::any(), avail_ring_addr: kani::any(),
        log_addr: if kani::any() { Some(kani::any()) } else { None },
    };
    let valid = k.is_valid(&c);
    assert!(!valid, "C19: no ring can be valid when no guest address is mapped");
    let r = k.set_vring_addr(qi, &c);
    kani::cover!(r.is_err());
    assert!(r.is_err() && kg().calls == 0, "C19: refused ring configurations issue no ioctl");
    std::mem::forget(r);
} }

// The IOTLB *writer* (send_iotlb_msg / dma_map / dma_unmap) calls write(2) directly; Kani 0.68 can neither
// model nor stub foreign functions (measured: `#[kani::stub(libc::write, ..)]` is registered but not applied),
// so that clause of C19 is not covered.  The parsers are:
// @harness props=C19 tier=quick reach=off bound="IOTLB message parsers (v1 and v2): all iova/size/uaddr values, permission codes 0..=3, type codes 0..=6, both message type words" stubs="-"
k_proof! { fn c19_iotlb_parse() {
    let perm: u8 = kani::any();
    kani::assume(perm <= 3);
    let ty: u8 = kani::any();
    kani::assume(ty <= 6);
    let (iova, size, ua): (u64, u64, u64) = (kani::any(), kani::any(), kani::any());
    let tword: u32 = kani::any();
    let mut b1 = [0u8; uapi::USZ_MSG];
    let mut b2 = [0u8; uapi::USZ_MSG_V2];
    b1[uapi::UOFF_MSG_TYPE..uapi::UOFF_MSG_TYPE + 4].copy_from_slice(&tword.to_le_bytes());
    b2[uapi::UOFF_MSG_V2_TYPE..uapi::UOFF_MSG_V2_TYPE + 4].copy_from_slice(&tword.to_le_bytes());
    for (buf, io) in [(&mut b1[..], uapi::UOFF_MSG_IOTLB), (&mut b2[..], uapi::UOFF_MSG_V2_IOTLB)] {
        buf[io + uapi::UOFF_IOTLB_IOVA..io + uapi::UOFF_IOTLB_IOVA + 8].copy_from_slice(&iova.to_le_bytes());
        buf[io + uapi::UOFF_IOTLB_SIZE..io + uapi::UOFF_IOTLB_SIZE + 8].copy_from_slice(&size.to_le_bytes());
        buf[io + uapi::UOFF_IOTLB_UADDR..io + uapi::UOFF_IOTLB_UADDR + 8].copy_from_slice(&ua.to_le_bytes());
        buf[io + uapi::UOFF_IOTLB_PERM] = perm;
        buf[io + uapi::UOFF_IOTLB_TYPE] = ty;
    }
    // SAFETY: plain old data of exactly the UAPI sizes
    let m1: vhost_msg = unsafe { core::ptr::read_unaligned(b1.as_ptr() as *const vhost_msg) };
    let m2: vhost_msg_v2 = unsafe { core::ptr::read_unaligned(b2.as_ptr() as *const vhost_msg_v2) };
    assert!(core::mem::size_of::<vhost_msg>() == uapi::USZ_MSG && core::mem::size_of::<vhost_msg_v2>() == uapi::USZ_MSG_V2, "C19: binding struct sizes = UAPI");
    let mut o1 = VhostIotlbMsg::default();
    let mut o2 = VhostIotlbMsg::default();
    let r1 = m1.parse(&mut o1);
    let r2 = m2.parse(&mut o2);
    kani::cover!(r1.is_ok());
    kani::cover!(r2.is_ok());
    assert!(r1.is_ok() == (tword == uapi::U_VHOST_IOTLB_MSG && ty != 0), "C19: v1 parser accepts exactly v1 messages with a defined type");
    assert!(r2.is_ok() == (tword == uapi::U_VHOST_IOTLB_MSG_V2 && ty != 0), "C19: v2 parser accepts exactly v2 messages with a defined type");
    if r1.is_ok() {
        assert!(o1.iova == iova && o1.size == size && o1.userspace_addr == ua && o1.perm as u8 == perm && o1.msg_type as u8 == ty, "C19: v1 fields at UAPI offsets");
    }
    if r2.is_ok() {
        assert!(o2.iova == iova && o2.size == size && o2.userspace_addr == ua && o2.perm as u8 == perm && o2.msg_type as u8 == ty, "C19: v2 fields at UAPI offsets");
    }
    std::mem::forget(r1);
    std::mem::forget(r2);
} }
