// harnesses for vk_mod
