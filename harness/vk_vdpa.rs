// harnesses for vk_vdpa
