// Child module of vhost::vhost_kern::vdpa.  C19 for the vhost-vDPA backend.
use super::*;
use crate::vhost_kern::verif::*;
use std::os::unix::io::FromRawFd;

fn mk() -> std::mem::ManuallyDrop<VhostKernVdpa<&'static vm_memory::GuestMemoryMmap<()>>> {
    // SAFETY: descriptor number only
    std::mem::ManuallyDrop::new(VhostKernVdpa::with(unsafe { File::from_raw_fd(KFD) }, empty_mem(), kani::any()))
}
fn wb32(v: u32, off: usize) {
    kg().wb[..4].copy_from_slice(&v.to_le_bytes());
    kg().wb_off = off;
    kg().wb_len = 4;
}

// @harness props=C19 tier=quick reach=off bound="vDPA queries: device id, status, vring num, config size, vqs count, group num, as num, iova range, vring group - all written-back values" stubs="vmm_sys_util::ioctl::* (ghost kernel), sysconf"
k_proof! { fn c19_vdpa_queries() {
    let k = mk();
    let back: u32 = kani::any();
    wb32(back, 0);
    let r = k.get_device_id();
    expect_ioctl(uapi::U_VHOST_VDPA_GET_DEVICE_ID, 4);
    assert!(matches!(r, Ok(v) if v == back)); std::mem::forget(r); reset();
    let r = k.get_config_size();
    expect_ioctl(uapi::U_VHOST_VDPA_GET_CONFIG_SIZE, 4);
    assert!(matches!(r, Ok(v) if v == back)); std::mem::forget(r); reset();
    let r = k.get_vqs_count();
    expect_ioctl(uapi::U_VHOST_VDPA_GET_VQS_COUNT, 4);
    assert!(matches!(r, Ok(v) if v == back)); std::mem::forget(r); reset();
    let r = k.get_group_num();
    expect_ioctl(uapi::U_VHOST_VDPA_GET_GROUP_NUM, 4);
    assert!(matches!(r, Ok(v) if v == back)); std::mem::forget(r); reset();
    let r = k.get_as_num();
    expect_ioctl(uapi::U_VHOST_VDPA_GET_AS_NUM, 4);
    assert!(matches!(r, Ok(v) if v == back)); std::mem::forget(r); reset();
    kg().wb_len = 1;
    let r = k.get_status();
    expect_ioctl(uapi::U_VHOST_VDPA_GET_STATUS, 1);
    assert!(matches!(r, Ok(v) if v == back as u8)); std::mem::forget(r); reset();
    kg().wb_len = 2;
    let r = k.get_vring_num();
    expect_ioctl(uapi::U_VHOST_VDPA_GET_VRING_NUM, 2);
    assert!(matches!(r, Ok(v) if v == back as u16)); std::mem::forget(r); reset();
    // iova range: two u64
    let (a, b): (u64, u64) = (kani::any(), kani::any());
    kg().wb[..8].copy_from_slice(&a.to_le_bytes());
    kg().wb[8..16].copy_from_slice(&b.to_le_bytes());
    kg().wb_off = 0;
    kg().wb_len = 16;
    let r = k.get_iova_range();
    expect_ioctl(uapi::U_VHOST_VDPA_GET_IOVA_RANGE, uapi::USZ_VDPA_IOVA_RANGE);
    assert!(matches!(&r, Ok(v) if v.first == a && v.last == b), "C19: iova range as written back"); std::mem::forget(r); reset();
    // vring group: index in, group out
    let qi: u32 = kani::any();
    wb32(back, uapi::UOFF_VRING_STATE_NUM);
    let r = k.get_vring_group(qi);
    expect_ioctl(uapi::U_VHOST_VDPA_GET_VRING_GROUP, uapi::USZ_VRING_STATE);
    assert!(a32(uapi::UOFF_VRING_STATE_INDEX) == qi && matches!(r, Ok(v) if v == back)); std::mem::forget(r);
} }

// @harness props=C19 tier=quick reach=off bound="vDPA setters: set_status, set_vring_enable, set_config_call, set_group_asid, suspend - all argument values" stubs="vmm_sys_util::ioctl::* (ghost kernel), sysconf"
k_proof! { fn c19_vdpa_setters() {
    let k = mk();
    let s: u8 = kani::any();
    let r = k.set_status(s);
    expect_ioctl(uapi::U_VHOST_VDPA_SET_STATUS, 1);
    assert!(kg().arg[0] == s); std::mem::forget(r); reset();
    let qi: usize = kani::any();
    let en: bool = kani::any();
    let r = k.set_vring_enable(qi, en);
    expect_ioctl(uapi::U_VHOST_VDPA_SET_VRING_ENABLE, uapi::USZ_VRING_STATE);
    assert!(a32(uapi::UOFF_VRING_STATE_INDEX) == qi as u32 && a32(uapi::UOFF_VRING_STATE_NUM) == en as u32); std::mem::forget(r); reset();
    // SAFETY: descriptor number only
    let ev = std::mem::ManuallyDrop::new(unsafe { EventFd::from_raw_fd(33) });
    let r = k.set_config_call(&ev);
    expect_ioctl(uapi::U_VHOST_VDPA_SET_CONFIG_CALL, 4);
    assert!(a32(0) == 33); std::mem::forget(r); reset();
    let (g, asid): (u32, u32) = (kani::any(), kani::any());
    let r = k.set_group_asid(g, asid);
    expect_ioctl(uapi::U_VHOST_VDPA_SET_GROUP_ASID, uapi::USZ_VRING_STATE);
    assert!(a32(uapi::UOFF_VRING_STATE_INDEX) == g && a32(uapi::UOFF_VRING_STATE_NUM) == asid); std::mem::forget(r); reset();
    let r = k.suspend();
    expect_ioctl(uapi::U_VHOST_VDPA_SUSPEND, 0);
    std::mem::forget(r);
} }

// @harness props=C19 tier=quick reach=off bound="vDPA set_vring_addr: all ring sizes/addresses/flags/log address; addresses are passed unchanged" stubs="vmm_sys_util::ioctl::* (ghost kernel), sysconf"
k_proof! { fn c19_vdpa_vring_addr() {
    let k = mk();
    let qi: usize = kani::any();
    let c = VringConfigData {
        queue_max_size: kani::any(), queue_size: kani::any(), flags: kani::any(),
        desc_table_addr: kani::any(), used_ring_addr: kani::any(), avail_ring_addr: kani::any(),
        log_addr: if kani::any() { Some(kani::any()) } else { None },
    };
    let r = k.set_vring_addr(qi, &c);
    kani::cover!(r.is_ok());
    let ok = ref_ring_valid(&c, 0, false);
    assert!(r.is_ok() == ok, "C19: accepted iff size is a power of two within the maximum and the log flag has an address");
    if ok {
        expect_ioctl(uapi::U_VHOST_SET_VRING_ADDR, uapi::USZ_VRING_ADDR);
        assert!(a32(uapi::UOFF_VRING_ADDR_INDEX) == qi as u32 && a32(uapi::UOFF_VRING_ADDR_FLAGS) == c.flags);
        assert!(a64(uapi::UOFF_VRING_ADDR_DESC) == c.desc_table_addr && a64(uapi::UOFF_VRING_ADDR_USED) == c.used_ring_addr
            && a64(uapi::UOFF_VRING_ADDR_AVAIL) == c.avail_ring_addr, "C19: vDPA ring addresses are handed over unchanged");
        assert!(a64(uapi::UOFF_VRING_ADDR_LOG) == if c.flags & 1 != 0 { c.log_addr.unwrap_or(0) } else { 0 });
    } else {
        assert!(kg().calls == 0, "C19: refused before any ioctl");
    }
    std::mem::forget(r);
} }

// dma_map / dma_unmap go through send_iotlb_msg -> write(2): not reachable for Kani (see vk_mod.rs).
