// Child module of vhost_user_backend::handler.
//
// The daemon-side request handler (VhostUserHandler) built by struct literal (its constructor spawns
// threads and cannot be compiled by Kani), driven through the real VhostUserBackendReqHandlerMut
// methods, with the worker's reaction to epoll events executed by the real VringEpollHandler::handle_event
// on the ghost interest lists / eventfd counters of vub_lib.rs.
//   C11  ring state machine over bounded symbolic histories + one-step registration invariant
//   C13  address translation (vmm_va_to_gpa) over symbolic mapping tables
//   C14  ring size / base / feature plumbing that does not touch guest memory
//   C17  event-id arithmetic and routing for symbolic queues-per-thread masks
//   C05  (daemon half) index / size arithmetic never panics or overflows
use super::*;
use crate::backend::verif::{VB, VBR};
use crate::event_loop::verif as ev;
use crate::verif as vgm;
use crate::vring::verif as vr;
use crate::vring::{VringMutex, VringRwLock};
use std::mem::ManuallyDrop;
use std::os::unix::io::{FromRawFd, RawFd};
use vm_memory::GuestMemoryAtomic;
use vmm_sys_util::event::EventNotifier;

type Mem = GuestMemoryAtomic<GuestMemoryMmap<()>>;

fn file(fd: RawFd) -> File {
    // SAFETY: ghost descriptor number, never used for I/O
    unsafe { File::from_raw_fd(fd) }
}

macro_rules! h_proof {
    ($(#[$m:meta])* fn $name:ident() $body:block) => {
        $(#[$m])*
        #[kani::proof]
        #[kani::stub(vmm_sys_util::epoll::Epoll::ctl, vgm::ghost_epoll_ctl)]
        #[kani::stub(vmm_sys_util::event::EventConsumer::consume, vgm::ghost_consume)]
        #[kani::stub(vmm_sys_util::event::EventNotifier::notify, vgm::ghost_notify)]
        #[kani::stub(libc::close, vgm::ghost_close)]
        #[kani::stub(<std::os::fd::OwnedFd as std::ops::Drop>::drop, vgm::ghost_ownedfd_drop)]
        #[kani::stub(std::alloc::handle_alloc_error, vgm::ghost_alloc_error)]
        #[kani::stub(log::max_level, log_off)]
        #[kani::stub(std::sync::Mutex::lock, vgm::ghost_mutex_lock)]
        #[kani::stub(std::sync::RwLock::read, vgm::ghost_rwlock_read)]
        #[kani::stub(std::sync::RwLock::write, vgm::ghost_rwlock_write)]
        fn $name() $body
    };
}
/// logging is not the subject: with the level filter off the log macros do nothing (this is also the
/// crate's default state; the stub only makes it a constant for CBMC)
fn log_off() -> log::LevelFilter {
    log::LevelFilter::Off
}

/// handler over `nq` mutex rings; `masks` = queues-per-thread; thread t's slice holds the rings whose bit
/// is set in masks[t], in queue order (what VhostUserHandler::new builds, given here)
fn mk_handler_m(nq: usize, masks: &[u64]) -> (ManuallyDrop<VhostUserHandler<VB>>, Vec<usize>) {
    let mem = ManuallyDrop::new(GuestMemoryAtomic::new(GuestMemoryMmap::<()>::new()));
    vgm::vg().num_queues = nq;
    let mut vrings: Vec<VringMutex<Mem>> = Vec::new();
    let mut ids = Vec::new();
    let mut q = 0;
    while q < nq {
        let v = vr::mk_vring_mutex(vr::dup_mem(&mem), 256);
        ids.push(vr::ring_id_mutex(&v));
        vrings.push(v);
        q += 1;
    }
    let mut handlers = Vec::new();
    let mut t = 0;
    while t < masks.len() {
        let mut tv = Vec::new();
        let mut q = 0;
        while q < nq {
            if (masks[t] >> q) & 1 == 1 {
                tv.push(vrings[q].clone());
            }
            q += 1;
        }
        handlers.push(Arc::new(ev::mk_epoll_handler(VB, tv, t, None)));
        t += 1;
    }
    let h = VhostUserHandler {
        backend: VB,
        handlers,
        owned: false,
        features_acked: false,
        acked_features: 0,
        acked_protocol_features: 0,
        num_queues: nq,
        max_queue_size: vgm::vg().max_queue_size,
        queues_per_thread: masks.to_vec(),
        mappings: Vec::new(),
        atomic_mem: vr::dup_mem(&mem),
        vrings,
        worker_threads: Vec::new(),
    };
    (ManuallyDrop::new(h), ids)
}
fn mk_handler_r(nq: usize, masks: &[u64]) -> (ManuallyDrop<VhostUserHandler<VBR>>, Vec<usize>) {
    let mem = ManuallyDrop::new(GuestMemoryAtomic::new(GuestMemoryMmap::<()>::new()));
    vgm::vg().num_queues = nq;
    let mut vrings: Vec<VringRwLock<Mem>> = Vec::new();
    let mut ids = Vec::new();
    let mut q = 0;
    while q < nq {
        let v = vr::mk_vring_rwlock(vr::dup_mem(&mem), 256);
        ids.push(vr::ring_id_rwlock(&v));
        vrings.push(v);
        q += 1;
    }
    let mut handlers = Vec::new();
    let mut t = 0;
    while t < masks.len() {
        let mut tv = Vec::new();
        let mut q = 0;
        while q < nq {
            if (masks[t] >> q) & 1 == 1 {
                tv.push(vrings[q].clone());
            }
            q += 1;
        }
        handlers.push(Arc::new(ev::mk_epoll_handler(VBR, tv, t, None)));
        t += 1;
    }
    let h = VhostUserHandler {
        backend: VBR,
        handlers,
        owned: false,
        features_acked: false,
        acked_features: 0,
        acked_protocol_features: 0,
        num_queues: nq,
        max_queue_size: vgm::vg().max_queue_size,
        queues_per_thread: masks.to_vec(),
        mappings: Vec::new(),
        atomic_mem: vr::dup_mem(&mem),
        vrings,
        worker_threads: Vec::new(),
    };
    (ManuallyDrop::new(h), ids)
}

const PF: u64 = 1 << 30; // VHOST_USER_F_PROTOCOL_FEATURES

// ---------------------------------------------------------------------------------------- C11
/// reference ring state machine (per ring)
#[derive(Clone, Copy)]
struct RefRing {
    started: bool,
    enabled: bool,
    kick: Option<RawFd>,
    call: bool,
    callfd: Option<RawFd>,
}

macro_rules! c11_history {
    ($name:ident, $mk:ident, $depth:expr, $unwind:expr, $idfn:path) => {
        h_proof! { #[kani::unwind($unwind)] fn $name() {
            let (mut h, _ids) = $mk(2, &[0b11]);
            let epfd = ev::EPFD0;
            vgm::vg().features = kani::any();
            let mut rr = [RefRing { started: false, enabled: false, kick: None, call: false, callfd: None }; 2];
            let mut next_fd = vgm::FD0;
            let mut dispatched_ok = true;
            let mut step = 0;
            while step < $depth {
                let op: u8 = kani::any();
                kani::assume(op < 8);
                let q: usize = kani::any();
                kani::assume(q < 2);
                match op {
                    // SET_FEATURES with / without PROTOCOL_FEATURES (only offered bits are accepted)
                    0 => {
                        let with_pf: bool = kani::any();
                        let f = if with_pf { vgm::vg().features | PF } else { vgm::vg().features & !PF };
                        vgm::vg().features |= PF;
                        let r = h.set_features(f);
                        if r.is_ok() && !with_pf {
                            rr[0].enabled = true;
                            rr[1].enabled = true;
                        }
                        std::mem::forget(r);
                    }
                    // SET_VRING_KICK with a new descriptor / without
                    1 => {
                        let with: bool = kani::any();
                        let fd = if with { let f = next_fd; next_fd += 1; Some(f) } else { None };
                        let r = h.set_vring_kick(q as u8, fd.map(file));
                        assert!(r.is_ok());
                        std::mem::forget(r);
                        rr[q].kick = fd;
                        if fd.is_some() {
                            rr[q].started = true;
                        }
                    }
                    2 => {
                        let f = next_fd;
                        next_fd += 1;
                        let r = h.set_vring_call(q as u8, Some(file(f)));
                        assert!(r.is_ok());
                        std::mem::forget(r);
                        rr[q].call = true;
                        if rr[q].kick.is_some() {
                            rr[q].started = true;
                        }
                    }
                    3 => {
                        let en: bool = kani::any();
                        let r = h.set_vring_enable(q as u32, en);
                        if r.is_ok() {
                            rr[q].enabled = en;
                        } else {
                            assert!(h.acked_features & PF == 0, "C11: SET_VRING_ENABLE refused although PROTOCOL_FEATURES was acknowledged");
                        }
                        std::mem::forget(r);
                    }
                    4 => {
                        let base: u16 = kani::any();
                        let r0 = h.set_vring_base(q as u32, base as u32);
                        std::mem::forget(r0);
                        let r = h.get_vring_base(q as u32);
                        match &r {
                            Ok(s) => {
                                let (i, n) = (s.index, s.num);
                                assert!(i == q as u32 && n == base as u32, "C11/C14: GET_VRING_BASE returns the next-available index");
                            }
                            Err(_) => assert!(false, "C11: GET_VRING_BASE on a valid ring failed"),
                        }
                        std::mem::forget(r);
                        rr[q].started = false;
                        rr[q].kick = None;
                        rr[q].call = false;
                    }
                    5 => {
                        let r = h.reset_device();
                        assert!(r.is_ok());
                        std::mem::forget(r);
                        rr[0].enabled = false;
                        rr[1].enabled = false;
                    }
                    // guest kick on the ring's current kick descriptor
                    6 => {
                        if let Some(fd) = rr[q].kick {
                            vgm::kick(fd);
                        }
                    }
                    // worker turn: epoll reports every registered descriptor whose counter is non-zero
                    _ => {
                        let mut k = 0;
                        while k < 2 {
                            if let Some(fd) = rr[k].kick {
                                if vgm::pending(fd) {
                                    if let Some(data) = vgm::registered(epfd, fd) {
                                        let before = vgm::vg().he_calls;
                                        let res = ev::worker_handle_event(&h.handlers[0], data as u16);
                                        assert!(res == Some(false), "C11: worker step failed");
                                        let called = vgm::vg().he_calls == before + 1;
                                        if called {
                                            dispatched_ok = dispatched_ok && vgm::vg().he_event == k as u16 && rr[k].started && rr[k].enabled;
                                        }
                                        assert!(called == (rr[k].started && rr[k].enabled), "C11: event handler runs iff the ring is started and enabled");
                                        assert!(!vgm::pending(fd) || !called);
                                    }
                                }
                            }
                            k += 1;
                        }
                    }
                }
                // ---- invariants after every step
                let mut k = 0;
                while k < 2 {
                    let v = &h.vrings[k];
                    let active = vr::is_active(v);
                    assert!(active == (rr[k].started && rr[k].enabled), "C11: started/enabled state follows the protocol");
                    assert!(vr::is_started(v) == rr[k].started && vr::is_enabled(v) == rr[k].enabled, "C11: started and enabled flags individually follow the protocol");
                    assert!(vr::kick_fd(v) == rr[k].kick, "C11: current kick descriptor");
                    if let Some(fd) = rr[k].kick {
                        let reg = vgm::registered(epfd, fd);
                        // C11: a kick on the current descriptor is dispatched iff (and as soon as) the ring is
                        // started and enabled: the descriptor is in the worker's interest list exactly then
                        assert!(reg.is_some() == (rr[k].started && rr[k].enabled), "C11: kick descriptor registered with the worker iff ring started and enabled");
                        if let Some(d) = reg {
                            assert!(d == k as u64, "C17: event id of the ring");
                        }
                    }
                    k += 1;
                }
                assert!(!vgm::vg().reg_overflow);
                step += 1;
            }
            assert!(dispatched_ok, "C11: dispatches only for the kicked, active ring");
            assert!(!vgm::vg().consumed_empty, "C11: worker consumed a kick that was never raised");
            kani::cover!(rr[0].started && rr[0].enabled, "witness: a ring becomes active within the history");
        } }
    };
}
// @harness props=C11 tier=thorough reach=off timeout=1500 mem=28 bound="2 rings (Mutex), one worker; every history of length 2 over {SET_FEATURES +-PF, SET_VRING_KICK new/none, SET_VRING_CALL, SET_VRING_ENABLE 0/1, SET_VRING_BASE+GET_VRING_BASE, RESET_DEVICE, guest kick, worker turn} on a symbolic ring; symbolic offered features" stubs="Epoll::ctl (ghost interest lists; EEXIST/ENOENT as Ok), EventConsumer::consume, EventNotifier::notify, close/OwnedFd::drop"
c11_history!(c11_history_mutex_d2, mk_handler_m, 2, 4, vr::ring_id_mutex);
// @harness props=C11 tier=thorough reach=off timeout=3000 mem=50 bound="as c11_history_mutex_d2 with histories of length 3" stubs="Epoll::ctl, EventConsumer::consume, EventNotifier::notify, close/OwnedFd::drop"
c11_history!(c11_history_mutex_d3, mk_handler_m, 3, 5, vr::ring_id_mutex);
// @harness props=C11 tier=thorough reach=off timeout=3000 mem=50 bound="as c11_history_mutex_d2 with histories of length 4" stubs="Epoll::ctl, EventConsumer::consume, EventNotifier::notify, close/OwnedFd::drop, Mutex::lock/RwLock (try_lock)"
c11_history!(c11_history_mutex_d4, mk_handler_m, 4, 6, vr::ring_id_mutex);
// @harness props=C11 tier=thorough reach=off timeout=3000 mem=50 bound="as c11_history_mutex_d2 over RwLock-backed rings (histories of length 2)" stubs="Epoll::ctl, EventConsumer::consume, EventNotifier::notify, close/OwnedFd::drop, Mutex::lock/RwLock (try_lock)"
c11_history!(c11_history_rw_d2, mk_handler_r, 2, 4, vr::ring_id_rwlock);

// ---- C11 as an inductive step: from every reachable per-ring state, one control message / kick / worker
// turn preserves "kick descriptor in the worker's interest list <=> ring started and enabled" and
// dispatches iff active.  Per-ring pre-states (built with the real API): not started; started without kick
// descriptor (kick removed); started with kick descriptor - each enabled or disabled - for both rings.
macro_rules! c11_step {
    ($name:ident, $mk:ident, $op:expr) => {
        h_proof! { #[kani::unwind(4)] fn $name() {
            let (mut h, _ids) = $mk(2, &[0b11]);
            let epfd = ev::EPFD0;
            vgm::vg().features = kani::any();
            h.acked_features = PF; // PROTOCOL_FEATURES acknowledged: rings are enabled only by SET_VRING_ENABLE
            let mut rr = [RefRing { started: false, enabled: false, kick: None, call: false, callfd: None }; 2];
            // ---- pre-state
            let mut k = 0;
            while k < 2 {
                let shape: u8 = kani::any();
                kani::assume(shape < 3);
                let en: bool = kani::any();
                let fd = vgm::FD0 + k as RawFd;
                if shape >= 1 {
                    let r = h.set_vring_kick(k as u8, Some(file(fd)));
                    std::mem::forget(r);
                    rr[k].started = true;
                    rr[k].kick = Some(fd);
                }
                if shape == 2 {
                    let r = h.set_vring_kick(k as u8, None);
                    std::mem::forget(r);
                    rr[k].kick = None;
                }
                if en {
                    let r = h.set_vring_enable(k as u32, true);
                    std::mem::forget(r);
                    rr[k].enabled = true;
                }
                // a call descriptor may be installed (SET_VRING_CALL never starts a ring that has no kick descriptor)
                if kani::any() {
                    let cfd = vgm::FD0 + 4 + k as RawFd;
                    let r = h.set_vring_call(k as u8, Some(file(cfd)));
                    std::mem::forget(r);
                    rr[k].callfd = Some(cfd);
                }
                // a kick may already be pending on the current descriptor
                if kani::any() && rr[k].kick.is_some() {
                    vgm::kick(fd);
                }
                k += 1;
            }
            // the pre-state satisfies the invariant (so the step below is inductive)
            let mut k = 0;
            while k < 2 {
                if let Some(fd) = rr[k].kick {
                    assert!(vgm::registered(epfd, fd).is_some() == (rr[k].started && rr[k].enabled), "C11: invariant in the constructed pre-state");
                }
                k += 1;
            }
            // ---- one step
            let q: usize = kani::any();
            kani::assume(q < 2);
            let newfd = vgm::FD0 + 2 + q as RawFd;
            let he_before = vgm::vg().he_calls;
            let op: u8 = $op;
            let old_kick = rr[q].kick;
            let old_call = rr[q].callfd;
            match op {
                0 => {
                    // SET_FEATURES without PROTOCOL_FEATURES: enables all rings - whatever feature word was
                    // acknowledged before (0 after a reset, the same word again, ...): an over-approximation
                    // of the reachable pre-states, sound because the step must hold from all of them
                    h.acked_features = kani::any();
                    vgm::vg().features |= PF;
                    let f = vgm::vg().features & !PF;
                    let r = h.set_features(f);
                    assert!(r.is_ok());
                    std::mem::forget(r);
                    rr[0].enabled = true;
                    rr[1].enabled = true;
                }
                1 => {
                    // SET_VRING_KICK with a new descriptor (also on an already started ring)
                    let r = h.set_vring_kick(q as u8, Some(file(newfd)));
                    assert!(r.is_ok());
                    std::mem::forget(r);
                    rr[q].kick = Some(newfd);
                    rr[q].started = true;
                }
                2 => {
                    let r = h.set_vring_kick(q as u8, None);
                    std::mem::forget(r);
                    rr[q].kick = None;
                }
                3 => {
                    let r = h.set_vring_call(q as u8, Some(file(newfd)));
                    assert!(r.is_ok());
                    std::mem::forget(r);
                    rr[q].callfd = Some(newfd);
                }
                4 => {
                    let en: bool = kani::any();
                    let r = h.set_vring_enable(q as u32, en);
                    assert!(r.is_ok());
                    std::mem::forget(r);
                    rr[q].enabled = en;
                }
                5 => {
                    let r = h.get_vring_base(q as u32);
                    assert!(r.is_ok());
                    std::mem::forget(r);
                    rr[q].started = false;
                    rr[q].kick = None;
                    rr[q].callfd = None;
                }
                6 => {
                    let r = h.reset_device();
                    assert!(r.is_ok());
                    std::mem::forget(r);
                    rr[0].enabled = false;
                    rr[1].enabled = false;
                }
                _ => {
                    // guest kick on ring q's current descriptor, then a worker turn over everything readable
                    if let Some(fd) = rr[q].kick {
                        vgm::kick(fd);
                    }
                    let mut k = 0;
                    while k < 2 {
                        if let Some(fd) = rr[k].kick {
                            if vgm::pending(fd) {
                                if let Some(data) = vgm::registered(epfd, fd) {
                                    let before = vgm::vg().he_calls;
                                    let res = ev::worker_handle_event(&h.handlers[0], data as u16);
                                    assert!(res == Some(false), "C11: worker step failed");
                                    let called = vgm::vg().he_calls == before + 1;
                                    assert!(called == (rr[k].started && rr[k].enabled), "C11: event handler runs iff the ring is started and enabled");
                                    if called {
                                        assert!(vgm::vg().he_event == k as u16 && vgm::vg().he_ring_active, "C11: dispatched for the kicked ring while it is active");
                                        assert!(!vgm::pending(fd), "C11: the dispatched kick is consumed");
                                    }
                                } else {
                                    // not watched: the kick stays pending (retained for activation)
                                    assert!(!(rr[k].started && rr[k].enabled), "C11: a kick on the current descriptor of an active ring must reach the worker");
                                }
                            }
                        }
                        k += 1;
                    }
                }
            }
            if op != 7 {
                assert!(vgm::vg().he_calls == he_before, "C11: control messages never invoke the event handler");
            }
            // ---- invariant after the step
            let mut k = 0;
            while k < 2 {
                let v = &h.vrings[k];
                assert!(vr::is_started(v) == rr[k].started, "C11: ring started by its kick descriptor, stopped by GET_VRING_BASE only");
                assert!(vr::is_enabled(v) == rr[k].enabled, "C11: ring enabled/disabled exactly by SET_FEATURES without PF, SET_VRING_ENABLE, RESET_DEVICE");
                assert!(vr::kick_fd(v) == rr[k].kick, "C11: current kick descriptor");
                assert!(vr::call_fd(v) == rr[k].callfd, "C11: call descriptor installed by SET_VRING_CALL, dropped by GET_VRING_BASE only");
                if let Some(fd) = rr[k].kick {
                    let reg = vgm::registered(epfd, fd);
                    assert!(reg.is_some() == (rr[k].started && rr[k].enabled), "C11: kick descriptor (also one installed while the ring was already started) is watched by the worker iff the ring is started and enabled");
                    if let Some(d) = reg {
                        assert!(d == k as u64, "C17: event id of the ring");
                    }
                    // kicks raised while inactive are retained
                    if !(rr[k].started && rr[k].enabled) && op != 7 {
                        // nothing consumed them
                    }
                }
                k += 1;
            }
            // C09: a kick descriptor that was replaced, cleared or dropped by GET_VRING_BASE is closed (once);
            // descriptors still installed are open
            if (op == 1 || op == 2 || op == 5) && old_kick.is_some() {
                let o = old_kick.unwrap();
                assert!(vgm::vg().closed[(o - vgm::FD0) as usize], "C09: the ring's previous kick descriptor must be closed when it is replaced / dropped");
                assert!(vgm::registrations_of(o) == 0, "C11: a dropped kick descriptor is no longer watched");
            }
            if (op == 3 || op == 5) && old_call.is_some() {
                let o = old_call.unwrap();
                assert!(vgm::vg().closed[(o - vgm::FD0) as usize], "C09: the ring's previous call descriptor must be closed when it is replaced / dropped by GET_VRING_BASE");
            }
            let mut k = 0;
            while k < 2 {
                if let Some(fd) = rr[k].kick {
                    assert!(!vgm::vg().closed[(fd - vgm::FD0) as usize], "C09: an installed kick descriptor was closed");
                }
                if let Some(fd) = rr[k].callfd {
                    assert!(!vgm::vg().closed[(fd - vgm::FD0) as usize], "C09: an installed call descriptor was closed");
                }
                k += 1;
            }
            assert!(!vgm::vg().reg_overflow && !vgm::vg().consumed_empty && !vgm::vg().double_close);
            kani::cover!(rr[1 - q].started && rr[1 - q].kick.is_some() && (rr[q].started || op == 5), "witness: the step runs from a pre-state with started rings");
        } }
    };
}
// @harness props=C11 tier=quick reach=off timeout=1200 mem=24 bound="inductive step set_features_nopf: 2 Mutex rings, every combination of per-ring pre-states (not started / started without kick fd / started with kick fd) x enabled x pending kick, symbolic ring" stubs="Epoll::ctl (ghost interest lists; EEXIST/ENOENT as Ok), EventConsumer::consume, EventNotifier::notify, close/OwnedFd::drop"
c11_step!(c11_step_set_features_nopf, mk_handler_m, 0);
// @harness props=C11,C09 tier=quick reach=off timeout=1200 mem=24 bound="inductive step set_kick_new: 2 Mutex rings, every combination of per-ring pre-states (not started / started without kick fd / started with kick fd) x enabled x pending kick, symbolic ring" stubs="Epoll::ctl (ghost interest lists; EEXIST/ENOENT as Ok), EventConsumer::consume, EventNotifier::notify, close/OwnedFd::drop"
c11_step!(c11_step_set_kick_new, mk_handler_m, 1);
// @harness props=C11,C09 tier=quick reach=off timeout=1200 mem=24 bound="inductive step set_kick_none: 2 Mutex rings, every combination of per-ring pre-states (not started / started without kick fd / started with kick fd) x enabled x pending kick, symbolic ring" stubs="Epoll::ctl (ghost interest lists; EEXIST/ENOENT as Ok), EventConsumer::consume, EventNotifier::notify, close/OwnedFd::drop"
c11_step!(c11_step_set_kick_none, mk_handler_m, 2);
// @harness props=C11 tier=quick reach=off timeout=1200 mem=24 bound="inductive step set_call: 2 Mutex rings, every combination of per-ring pre-states (not started / started without kick fd / started with kick fd) x enabled x pending kick, symbolic ring" stubs="Epoll::ctl (ghost interest lists; EEXIST/ENOENT as Ok), EventConsumer::consume, EventNotifier::notify, close/OwnedFd::drop"
c11_step!(c11_step_set_call, mk_handler_m, 3);
// @harness props=C11 tier=quick reach=off timeout=1200 mem=24 bound="inductive step set_enable: 2 Mutex rings, every combination of per-ring pre-states (not started / started without kick fd / started with kick fd) x enabled x pending kick, symbolic ring" stubs="Epoll::ctl (ghost interest lists; EEXIST/ENOENT as Ok), EventConsumer::consume, EventNotifier::notify, close/OwnedFd::drop"
c11_step!(c11_step_set_enable, mk_handler_m, 4);
// @harness props=C11,C09 tier=quick reach=off timeout=1200 mem=24 bound="inductive step get_vring_base: 2 Mutex rings, every combination of per-ring pre-states (not started / started without kick fd / started with kick fd) x enabled x pending kick, symbolic ring" stubs="Epoll::ctl (ghost interest lists; EEXIST/ENOENT as Ok), EventConsumer::consume, EventNotifier::notify, close/OwnedFd::drop"
c11_step!(c11_step_get_vring_base, mk_handler_m, 5);
// @harness props=C11 tier=quick reach=off timeout=1200 mem=24 bound="inductive step reset_device: 2 Mutex rings, every combination of per-ring pre-states (not started / started without kick fd / started with kick fd) x enabled x pending kick, symbolic ring" stubs="Epoll::ctl (ghost interest lists; EEXIST/ENOENT as Ok), EventConsumer::consume, EventNotifier::notify, close/OwnedFd::drop"
c11_step!(c11_step_reset_device, mk_handler_m, 6);
// @harness props=C11 tier=quick reach=off timeout=1200 mem=24 bound="inductive step kick_and_worker: 2 Mutex rings, every combination of per-ring pre-states (not started / started without kick fd / started with kick fd) x enabled x pending kick, symbolic ring" stubs="Epoll::ctl (ghost interest lists; EEXIST/ENOENT as Ok), EventConsumer::consume, EventNotifier::notify, close/OwnedFd::drop"
c11_step!(c11_step_kick_and_worker, mk_handler_m, 7);
// @harness props=C11 tier=thorough reach=off timeout=1200 mem=24 bound="inductive step set_kick_new over RwLock rings" stubs="Epoll::ctl (ghost interest lists; EEXIST/ENOENT as Ok), EventConsumer::consume, EventNotifier::notify, close/OwnedFd::drop"
c11_step!(c11_step_rw_set_kick_new, mk_handler_r, 1);
// @harness props=C11 tier=thorough reach=off timeout=1200 mem=24 bound="inductive step kick_and_worker over RwLock rings" stubs="Epoll::ctl (ghost interest lists; EEXIST/ENOENT as Ok), EventConsumer::consume, EventNotifier::notify, close/OwnedFd::drop"
c11_step!(c11_step_rw_kick_and_worker, mk_handler_r, 7);
// @harness props=C11 tier=thorough reach=off timeout=1200 mem=24 bound="inductive step get_vring_base over RwLock rings" stubs="Epoll::ctl (ghost interest lists; EEXIST/ENOENT as Ok), EventConsumer::consume, EventNotifier::notify, close/OwnedFd::drop"
c11_step!(c11_step_rw_get_vring_base, mk_handler_r, 5);

// ---------------------------------------------------------------------------------------- C12
// Kani has no threads: a schedule of the worker thread and the control (daemon) thread is made explicit by
// SEQUENTIALISATION at the points where the two threads can be suspended relative to each other:
//   W1 worker: epoll_wait has returned an event for the ring's kick fd (stale snapshot of the interest list)
//   W2 worker: read_kick done (ring lock released), backend.handle_event not yet entered
//   C  control: one disabling / stopping message runs to completion ("reply sent")
// Schedules covered here:  W1 . C . worker continues   (c12_stale_*)
//                          W2 . C . worker continues   (c12_window_*, the control message runs nested at the
//                                                      entry of the recording backend's handle_event)
// Schedules NOT expressible: the control thread suspended in the middle of a message while the worker runs
// (argued equivalent to one of the two orders because both sides serialise on the ring lock), >2 threads.
static mut NESTED: (u8, *mut VhostUserHandler<VB>, u64) = (0, std::ptr::null_mut(), 0x6331_325f_6e65_7374);

/// called by the recording backend at the entry of handle_event (schedule point W2)
pub(crate) fn nested_control() {
    // SAFETY: single-threaded harness; the handler outlives the call; the worker holds no lock at W2
    unsafe {
        if NESTED.0 != 0 && !NESTED.1.is_null() {
            let op = NESTED.0;
            NESTED.0 = 0;
            c12_control(&mut *NESTED.1, op);
            NESTED.2 |= 1 << 63; // "reply sent" marker
        }
    }
}
fn c12_control(h: &mut VhostUserHandler<VB>, op: u8) {
    match op {
        1 => { let r = h.set_vring_enable(0, false); assert!(r.is_ok()); std::mem::forget(r); }
        2 => { let r = h.get_vring_base(0); assert!(r.is_ok()); std::mem::forget(r); }
        _ => { let r = h.reset_device(); assert!(r.is_ok()); std::mem::forget(r); }
    }
}

/// W1 . C . worker continues; then the ring is activated again and the worker takes another turn
fn c12_stale(op: u8) {
    let (mut h, _ids) = mk_handler_m(2, &[0b11]);
    let epfd = ev::EPFD0;
    h.acked_features = PF;
    let fd = vgm::FD0;
    let r = h.set_vring_kick(0, Some(file(fd)));
    std::mem::forget(r);
    let r = h.set_vring_enable(0, true);
    std::mem::forget(r);
    // guest kicks; the worker's epoll_wait returns the event ...
    vgm::kick(fd);
    let ev_data = vgm::registered(epfd, fd);
    assert!(ev_data == Some(0));
    // ... and before the worker looks at it the control thread processes a disabling / stopping message
    c12_control(&mut h, op);
    let calls_at_reply = vgm::vg().he_calls;
    // worker continues with the (now stale) event
    let res = ev::worker_handle_event(&h.handlers[0], 0);
    assert!(res == Some(false));
    assert!(vgm::vg().he_calls == calls_at_reply, "C12: event handler entered for a ring after the reply to the message that disabled / stopped it");
    if op != 2 {
        // the ring still owns its kick descriptor: the kick must not be consumed without being processed
        assert!(vgm::pending(fd), "C12: a wake-up was consumed without being processed (kick lost while the ring is disabled)");
        // re-enable (after RESET_DEVICE the features have to be negotiated again first): the pending kick
        // must now reach the handler
        if op == 3 {
            vgm::vg().features = PF;
            let r = h.set_features(PF);
            assert!(r.is_ok());
            std::mem::forget(r);
        }
        let r = h.set_vring_enable(0, true);
        assert!(r.is_ok());
        std::mem::forget(r);
        assert!(vgm::registered(epfd, fd) == Some(0), "C12: re-enabled ring is watched again");
        let res = ev::worker_handle_event(&h.handlers[0], 0);
        assert!(res == Some(false));
        assert!(vgm::vg().he_calls == calls_at_reply + 1 && vgm::vg().he_ring_active, "C12: the retained kick is processed once the ring is enabled again");
    }
    if op == 2 {
        // stop / restart: GET_VRING_BASE leaves the ring enabled; a new kick descriptor starts it again and a
        // kick raised on it must be processed (no wake-up lost after the restart)
        let fd2 = vgm::FD0 + 1;
        let r = h.set_vring_kick(0, Some(file(fd2)));
        assert!(r.is_ok());
        std::mem::forget(r);
        vgm::kick(fd2);
        assert!(vgm::registered(epfd, fd2) == Some(0), "C12: the restarted ring is watched again (otherwise every later kick is lost)");
        let res = ev::worker_handle_event(&h.handlers[0], 0);
        assert!(res == Some(false));
        assert!(vgm::vg().he_calls == calls_at_reply + 1 && vgm::vg().he_ring_active, "C12: a kick on the restarted ring is processed");
    }
    kani::cover!(vgm::vg().he_calls == calls_at_reply + 1, "witness: the schedule runs to its end");
}
/// W2 . C . worker continues: the worker has read the kick of an active ring (lock released) and is about to
/// enter the backend's event handler when a disabling / stopping message is processed completely
fn c12_window(op: u8) {
    let (mut h, _ids) = mk_handler_m(2, &[0b11]);
    h.acked_features = PF;
    let fd = vgm::FD0;
    let r = h.set_vring_kick(0, Some(file(fd)));
    std::mem::forget(r);
    let r = h.set_vring_enable(0, true);
    std::mem::forget(r);
    vgm::kick(fd);
    // SAFETY: single-threaded harness
    unsafe {
        NESTED.0 = op;
        NESTED.1 = &mut *h as *mut VhostUserHandler<VB>;
    }
    let res = ev::worker_handle_event(&h.handlers[0], 0);
    assert!(res == Some(false));
    let g = vgm::vg();
    kani::cover!(g.he_calls == 1);
    // the handler was entered after the nested message completed: the ring must be active at that time
    assert!(g.he_calls == 0 || g.he_ring_active, "C12: event handler entered for a ring after the reply to the message that disabled / stopped it (window between reading the kick and dispatching)");
}
// @harness props=C12 tier=quick reach=off timeout=900 mem=24 bound="schedule W2.C.W for C = SET_VRING_ENABLE(0): control message between the worker's read_kick and the backend call" stubs="Epoll::ctl (ghost interest lists), EventConsumer::consume, EventNotifier::notify, close/OwnedFd::drop"
h_proof! { #[kani::unwind(4)] fn c12_window_disable() { c12_window(1) } }
// @harness props=C12 tier=quick reach=off timeout=900 mem=24 bound="schedule W2.C.W for C = GET_VRING_BASE" stubs="Epoll::ctl (ghost interest lists), EventConsumer::consume, EventNotifier::notify, close/OwnedFd::drop"
h_proof! { #[kani::unwind(4)] fn c12_window_get_vring_base() { c12_window(2) } }
// @harness props=C12 tier=thorough reach=off timeout=900 mem=24 bound="schedule W2.C.W for C = RESET_DEVICE" stubs="Epoll::ctl (ghost interest lists), EventConsumer::consume, EventNotifier::notify, close/OwnedFd::drop"
h_proof! { #[kani::unwind(4)] fn c12_window_reset() { c12_window(3) } }

// @harness props=C12 tier=quick reach=off timeout=900 mem=24 bound="schedule W1.C.W for C = SET_VRING_ENABLE(0): worker holds a stale epoll event while the ring is disabled, then re-enabled (2 Mutex rings, one worker)" stubs="Epoll::ctl (ghost interest lists), EventConsumer::consume, EventNotifier::notify, close/OwnedFd::drop"
h_proof! { #[kani::unwind(4)] fn c12_stale_disable() { c12_stale(1) } }
/// stop . SET_VRING_ENABLE(0) while stopped . restart . kick: the disabling message was answered, so the kick
/// raised after the restart must NOT reach the handler until SET_VRING_ENABLE(1) - and then exactly once
fn c12_stop_disable_restart() {
    let (mut h, _ids) = mk_handler_m(2, &[0b11]);
    let epfd = ev::EPFD0;
    h.acked_features = PF;
    let fd = vgm::FD0;
    let r = h.set_vring_kick(0, Some(file(fd)));
    std::mem::forget(r);
    let r = h.set_vring_enable(0, true);
    std::mem::forget(r);
    c12_control(&mut h, 2); // GET_VRING_BASE: stopped, still enabled
    let r = h.set_vring_enable(0, false); // disabled while stopped
    assert!(r.is_ok());
    std::mem::forget(r);
    let calls_at_reply = vgm::vg().he_calls;
    let fd2 = vgm::FD0 + 1;
    let r = h.set_vring_kick(0, Some(file(fd2))); // restart
    assert!(r.is_ok());
    std::mem::forget(r);
    vgm::kick(fd2);
    if vgm::registered(epfd, fd2).is_some() {
        let res = ev::worker_handle_event(&h.handlers[0], 0);
        std::mem::forget(res);
    }
    assert!(vgm::vg().he_calls == calls_at_reply, "C12: event handler entered for a ring after the reply to the message that disabled / stopped it");
    assert!(vgm::pending(fd2), "C12: a wake-up was consumed without being processed (kick lost while the ring is disabled)");
    let r = h.set_vring_enable(0, true);
    assert!(r.is_ok());
    std::mem::forget(r);
    assert!(vgm::registered(epfd, fd2) == Some(0), "C12: re-enabled ring is watched again");
    let res = ev::worker_handle_event(&h.handlers[0], 0);
    assert!(res == Some(false));
    assert!(vgm::vg().he_calls == calls_at_reply + 1 && vgm::vg().he_ring_active, "C12: the retained kick is processed once the ring is enabled again");
    kani::cover!(vgm::vg().he_calls == calls_at_reply + 1, "witness: the schedule runs to its end");
}
/// stop . any message that must not start a ring . kick on the old descriptor . worker: a ring stopped by
/// GET_VRING_BASE stays stopped until a new kick descriptor arrives, whatever else is sent for it meanwhile
fn c12_stop_then_message(op: u8) {
    let (mut h, _ids) = mk_handler_m(2, &[0b11]);
    let epfd = ev::EPFD0;
    h.acked_features = PF;
    let fd = vgm::FD0;
    let r = h.set_vring_kick(0, Some(file(fd)));
    std::mem::forget(r);
    let r = h.set_vring_enable(0, true);
    std::mem::forget(r);
    if kani::any() {
        let r = h.set_vring_call(0, Some(file(vgm::FD0 + 2)));
        std::mem::forget(r);
    }
    c12_control(&mut h, 2); // GET_VRING_BASE: stopped (reply sent), still enabled
    let calls_at_reply = vgm::vg().he_calls;
    let nfd = vgm::FD0 + 3;
    match op {
        0 => { let r = h.set_vring_call(0, Some(file(nfd))); assert!(r.is_ok()); std::mem::forget(r); }
        1 => { let r = h.set_vring_call(0, None); assert!(r.is_ok()); std::mem::forget(r); }
        2 => { let r = h.set_vring_err(0, Some(file(nfd))); assert!(r.is_ok()); std::mem::forget(r); }
        3 => { let r = h.set_vring_base(0, kani::any()); assert!(r.is_ok()); std::mem::forget(r); }
        _ => { let r = h.set_vring_enable(0, true); assert!(r.is_ok()); std::mem::forget(r); }
    }
    assert!(!vr::is_started(&h.vrings[0]), "C12/C11: only a kick descriptor starts a stopped ring");
    // the guest kicks the descriptor the ring had before it was stopped; the worker handles whatever it is told about
    vgm::kick(fd);
    if let Some(data) = vgm::registered(epfd, fd) {
        let res = ev::worker_handle_event(&h.handlers[0], data as u16);
        std::mem::forget(res);
    }
    assert!(vgm::registrations_of(fd) == 0, "C12: the kick descriptor of a stopped ring is not watched");
    assert!(vgm::vg().he_calls == calls_at_reply, "C12: event handler entered for a ring after the reply to the message that disabled / stopped it");
    // restart with a new kick descriptor: the ring runs again and the new kick is processed once
    let fd2 = vgm::FD0 + 1;
    let r = h.set_vring_kick(0, Some(file(fd2)));
    assert!(r.is_ok());
    std::mem::forget(r);
    vgm::kick(fd2);
    assert!(vgm::registered(epfd, fd2) == Some(0), "C12: the restarted ring is watched again");
    let res = ev::worker_handle_event(&h.handlers[0], 0);
    assert!(res == Some(false));
    assert!(vgm::vg().he_calls == calls_at_reply + 1 && vgm::vg().he_ring_active, "C12: the kick after the restart is processed");
    kani::cover!(vgm::vg().he_calls == calls_at_reply + 1, "witness: the schedule runs to its end");
}
// @harness props=C12,C11 tier=quick reach=off timeout=900 mem=24 bound="stopped ring stays stopped: SET_VRING_KICK . SET_VRING_ENABLE(1) . [SET_VRING_CALL] . GET_VRING_BASE . SET_VRING_CALL(new descriptor) . guest kick on the old kick descriptor . worker . SET_VRING_KICK(new descriptor) . kick . worker (2 Mutex rings, one worker)" stubs="Epoll::ctl (ghost interest lists), EventConsumer::consume, EventNotifier::notify, close/OwnedFd::drop"
h_proof! { #[kani::unwind(4)] fn c12_stopped_ring_set_call() { c12_stop_then_message(0) } }
// @harness props=C12,C11 tier=quick reach=off timeout=900 mem=24 bound="stopped ring stays stopped: SET_VRING_KICK . SET_VRING_ENABLE(1) . [SET_VRING_CALL] . GET_VRING_BASE . SET_VRING_CALL(no descriptor) . guest kick on the old kick descriptor . worker . SET_VRING_KICK(new descriptor) . kick . worker (2 Mutex rings, one worker)" stubs="Epoll::ctl (ghost interest lists), EventConsumer::consume, EventNotifier::notify, close/OwnedFd::drop"
h_proof! { #[kani::unwind(4)] fn c12_stopped_ring_set_call_none() { c12_stop_then_message(1) } }
// @harness props=C12,C11 tier=thorough reach=off timeout=900 mem=24 bound="stopped ring stays stopped: SET_VRING_KICK . SET_VRING_ENABLE(1) . [SET_VRING_CALL] . GET_VRING_BASE . SET_VRING_ERR(descriptor) . guest kick on the old kick descriptor . worker . SET_VRING_KICK(new descriptor) . kick . worker (2 Mutex rings, one worker)" stubs="Epoll::ctl (ghost interest lists), EventConsumer::consume, EventNotifier::notify, close/OwnedFd::drop"
h_proof! { #[kani::unwind(4)] fn c12_stopped_ring_set_err() { c12_stop_then_message(2) } }
// @harness props=C12,C11 tier=thorough reach=off timeout=900 mem=24 bound="stopped ring stays stopped: SET_VRING_KICK . SET_VRING_ENABLE(1) . [SET_VRING_CALL] . GET_VRING_BASE . SET_VRING_BASE . guest kick on the old kick descriptor . worker . SET_VRING_KICK(new descriptor) . kick . worker (2 Mutex rings, one worker)" stubs="Epoll::ctl (ghost interest lists), EventConsumer::consume, EventNotifier::notify, close/OwnedFd::drop"
h_proof! { #[kani::unwind(4)] fn c12_stopped_ring_set_base() { c12_stop_then_message(3) } }
// @harness props=C12,C11 tier=quick reach=off timeout=900 mem=24 bound="stopped ring stays stopped: SET_VRING_KICK . SET_VRING_ENABLE(1) . [SET_VRING_CALL] . GET_VRING_BASE . SET_VRING_ENABLE(1) . guest kick on the old kick descriptor . worker . SET_VRING_KICK(new descriptor) . kick . worker (2 Mutex rings, one worker)" stubs="Epoll::ctl (ghost interest lists), EventConsumer::consume, EventNotifier::notify, close/OwnedFd::drop"
h_proof! { #[kani::unwind(4)] fn c12_stopped_ring_enable() { c12_stop_then_message(4) } }
// @harness props=C12,C11 tier=quick reach=off timeout=900 mem=24 bound="stop/restart scenario with the ring disabled while it is stopped: GET_VRING_BASE . SET_VRING_ENABLE(0) . SET_VRING_KICK(new descriptor) . guest kick . worker . SET_VRING_ENABLE(1) . worker (2 Mutex rings, one worker)" stubs="Epoll::ctl (ghost interest lists), EventConsumer::consume, EventNotifier::notify, close/OwnedFd::drop"
h_proof! { #[kani::unwind(4)] fn c12_stop_disable_restart_h() { c12_stop_disable_restart() } }
// @harness props=C12 tier=quick reach=off timeout=900 mem=24 bound="schedule W1.C.W for C = GET_VRING_BASE: worker holds a stale epoll event while the ring is stopped; then restart with a new kick descriptor and one kick" stubs="Epoll::ctl (ghost interest lists), EventConsumer::consume, EventNotifier::notify, close/OwnedFd::drop"
h_proof! { #[kani::unwind(4)] fn c12_stale_get_vring_base() { c12_stale(2) } }
// @harness props=C12 tier=quick reach=off timeout=900 mem=24 bound="schedule W1.C.W for C = RESET_DEVICE: worker holds a stale epoll event while all rings are disabled, then re-enabled" stubs="Epoll::ctl (ghost interest lists), EventConsumer::consume, EventNotifier::notify, close/OwnedFd::drop"
h_proof! { #[kani::unwind(4)] fn c12_stale_reset() { c12_stale(3) } }

// ---------------------------------------------------------------------------------------- C13
fn va_to_gpa(n: usize) {
    let (mut h, _) = mk_handler_m(1, &[1]);
    let ua: [u64; 3] = kani::any();
    let sz: [u64; 3] = kani::any();
    let ga: [u64; 3] = kani::any();
    let mut i = 0;
    while i < 3 {
        if i < n {
            // what the request server validates for every region it hands to the daemon
            kani::assume(sz[i] != 0 && ua[i].checked_add(sz[i]).is_some() && ga[i].checked_add(sz[i]).is_some());
            h.mappings.push(AddrMapping { vmm_addr: ua[i], size: sz[i], gpa_base: ga[i] });
        }
        i += 1;
    }
    let va: u64 = kani::any();
    let r = h.vmm_va_to_gpa(va);
    // reference: first region whose user range contains va
    let hit = |i: usize| i < n && va >= ua[i] && va - ua[i] < sz[i];
    let exp = if hit(0) { Some(ga[0] + (va - ua[0])) } else if hit(1) { Some(ga[1] + (va - ua[1])) } else if hit(2) { Some(ga[2] + (va - ua[2])) } else { None };
    kani::cover!(exp.is_some() == (n > 0));
    match &r {
        Ok(g) => assert!(Some(*g) == exp, "C13: gpa = gpa_base + (va - user_base) of the region containing va"),
        Err(_) => assert!(exp.is_none(), "C13: an address inside a current region must translate"),
    }
    std::mem::forget(r);
}
// @harness props=C13,C05,C14 tier=quick reach=off bound="vmm_va_to_gpa: 3 mappings with symbolic user base/size/gpa obeying what the request server validates (size != 0, no 64-bit wrap of user or guest range; overlaps and any order allowed), all 64-bit probe addresses" stubs="-"
h_proof! { #[kani::unwind(6)] fn c13_u_va_to_gpa_3() { va_to_gpa(3) } }
// @harness props=C13,C05,C14 tier=quick reach=off bound="vmm_va_to_gpa: 1 mapping, all values" stubs="-"
h_proof! { #[kani::unwind(6)] fn c13_u_va_to_gpa_1() { va_to_gpa(1) } }
// @harness props=C13,C14 tier=quick reach=off bound="vmm_va_to_gpa: empty table: every address is rejected" stubs="-"
h_proof! { #[kani::unwind(6)] fn c13_u_va_to_gpa_0() { va_to_gpa(0) } }

// ---------------------------------------------------------------------------------------- C14 / C05
/// Only REFUSED sizes are instantiated: for an accepted size the call reaches virtio-queue's
/// Queue::set_size, whose Result<(), virtio_queue::Error> temporary (-> GuestMemoryError -> io::Error) CBMC
/// drops with an unknown discriminant; no verdict in 300 s even with every input concrete.  "The ring has
/// the configured size" is therefore NOT covered.
/// `num` and the backend maximum are concrete per harness: with a symbolic size the error value of
/// Queue::try_set_size (virtio_queue::Error -> GuestMemoryError -> io::Error) is dropped with a symbolic
/// discriminant and CBMC explores its whole drop glue (no verdict in 300 s).  The ring index is symbolic.
fn vring_num(num: u32, maxq: usize) {
    vgm::vg().max_queue_size = maxq;
    let (mut h, _) = mk_handler_m(1, &[0b1]);
    let idx: u32 = kani::any();
    let r = h.set_vring_num(idx, num);
    let in_range = (idx as usize) < 1;
    let size_ok = num != 0 && num as usize <= maxq;
    kani::cover!(r.is_ok() == size_ok);
    assert!(r.is_ok() == (in_range && size_ok), "C14: SET_VRING_NUM accepted iff index in range and 0 < size <= backend maximum");
    if r.is_ok() && num.is_power_of_two() {
        assert!(h.vrings[0].get_ref().get_queue().size() == num as u16, "C14: the ring has the configured size");
    }
    std::mem::forget(r);
}
// @harness props=C14,C05 tier=quick reach=off bound="SET_VRING_NUM size 0 with backend maximum 256: all u32 ring indexes (1 ring)" stubs="Epoll::ctl, close/OwnedFd::drop"
h_proof! { #[kani::unwind(4)] fn c14_u_vring_num_0_max256() { vring_num(0, 256) } }
// @harness props=C14,C05 tier=quick reach=off bound="SET_VRING_NUM size 257 with backend maximum 256: all u32 ring indexes (1 ring)" stubs="Epoll::ctl, close/OwnedFd::drop"
h_proof! { #[kani::unwind(4)] fn c14_u_vring_num_257_max256() { vring_num(257, 256) } }
// @harness props=C14,C05 tier=thorough reach=off bound="SET_VRING_NUM size 2 with backend maximum 1: all u32 ring indexes (1 ring)" stubs="Epoll::ctl, close/OwnedFd::drop"
h_proof! { #[kani::unwind(4)] fn c14_u_vring_num_2_max1() { vring_num(2, 1) } }
// @harness props=C14,C05 tier=thorough reach=off bound="SET_VRING_NUM size 65536 with backend maximum 32768: all u32 ring indexes (1 ring)" stubs="Epoll::ctl, close/OwnedFd::drop"
h_proof! { #[kani::unwind(4)] fn c14_u_vring_num_65536_max32768() { vring_num(65536, 32768) } }
// @harness props=C14,C05 tier=quick reach=off bound="SET_VRING_NUM size 65792 with backend maximum 32768: all u32 ring indexes (1 ring)" stubs="Epoll::ctl, close/OwnedFd::drop"
h_proof! { #[kani::unwind(4)] fn c14_u_vring_num_65792_max32768() { vring_num(65792, 32768) } }

// @harness props=C14,C09,C11 tier=quick reach=off timeout=900 bound="call descriptor of a ring over every history of 3 messages from {SET_VRING_CALL with a new descriptor, SET_VRING_CALL without descriptor, GET_VRING_BASE} (2 Mutex rings, symbolic ring), then signal_used_queue on both rings: exactly the most recently installed descriptor is signalled, once; nothing when none is installed; replaced / removed descriptors are closed once" stubs="Epoll::ctl, EventNotifier::notify (ghost counters), close/OwnedFd::drop"
h_proof! { #[kani::unwind(4)] fn c14_u_call_descriptor() {
    let (mut h, _) = mk_handler_m(2, &[0b11]);
    let q: usize = kani::any();
    kani::assume(q < 2);
    let mut cur: Option<RawFd> = None;
    let mut installed = [false; 3];
    let mut i = 0;
    while i < 3 {
        let op: u8 = kani::any();
        kani::assume(op < 3);
        let fd = vgm::FD0 + i as RawFd;
        match op {
            0 => {
                let r = h.set_vring_call(q as u8, Some(file(fd)));
                assert!(r.is_ok());
                std::mem::forget(r);
                cur = Some(fd);
                installed[i] = true;
            }
            1 => {
                let r = h.set_vring_call(q as u8, None);
                assert!(r.is_ok());
                std::mem::forget(r);
                cur = None;
            }
            _ => {
                let r = h.get_vring_base(q as u32);
                assert!(r.is_ok());
                std::mem::forget(r);
                cur = None;
            }
        }
        i += 1;
    }
    assert!(vr::call_fd(&h.vrings[q]) == cur, "C14: the ring's call descriptor is the one most recently installed (none after a SET_VRING_CALL without descriptor or GET_VRING_BASE)");
    assert!(vr::call_fd(&h.vrings[1 - q]).is_none(), "C14: other rings untouched");
    let r0 = h.vrings[0].signal_used_queue();
    let r1 = h.vrings[1].signal_used_queue();
    assert!(r0.is_ok() && r1.is_ok());
    std::mem::forget(r0);
    std::mem::forget(r1);
    kani::cover!(cur.is_some() && installed[0] && installed[1]);
    let mut k = 0;
    while k < 3 {
        let fd = vgm::FD0 + k as RawFd;
        let want = if cur == Some(fd) { 1 } else { 0 };
        assert!(vgm::vg().notified[k] == want, "C14: used buffers are signalled on the call descriptor most recently installed for that ring, and on no other (nothing when none is installed)");
        assert!(vgm::vg().closed[k] == (installed[k] && cur != Some(fd)), "C09: a replaced / removed call descriptor is closed, the installed one stays open");
        k += 1;
    }
    assert!(!vgm::vg().double_close);
} }

// @harness props=C14,C05 tier=quick reach=off bound="SET_VRING_BASE then GET_VRING_BASE: 1 ring (a symbolic index over several lock-protected rings makes every lock operation a pointer case split), all u32 indexes and bases" stubs="Epoll::ctl, close/OwnedFd::drop"
h_proof! { #[kani::unwind(6)] fn c14_u_vring_base() {
    let (mut h, _) = mk_handler_m(1, &[0b1]);
    let idx: u32 = kani::any();
    let in_range = (idx as usize) < 1;
    let base: u32 = kani::any();
    let used_before = h.vrings[0].get_ref().get_queue().next_used();
    let r = h.set_vring_base(idx, base);
    assert!(r.is_ok() == in_range, "C14: per-ring message accepted iff the index is in range");
    std::mem::forget(r);
    if in_range && base <= 0xffff {
        assert!(h.vrings[idx as usize].queue_next_avail() == base as u16, "C14: next-available index = base");
    }
    assert!(h.vrings[0].get_ref().get_queue().next_used() == used_before, "C14: SET_VRING_BASE sets the next-available index only; next-used comes from the used ring in guest memory (SET_VRING_ADDR)");
    let r = h.get_vring_base(idx);
    kani::cover!(r.is_ok());
    match &r {
        Ok(s) => {
            let (i, n) = (s.index, s.num);
            assert!(in_range && i == idx && n == (base & 0xffff), "C14: GET_VRING_BASE returns the next-available index unchanged");
        }
        Err(_) => assert!(!in_range),
    }
    std::mem::forget(r);
} }

// @harness props=C14,C05 tier=quick reach=off bound="index checks of SET_VRING_ENABLE (all u32) and SET_VRING_KICK/CALL/ERR (all u8), 1 ring (a symbolic index over several lock-protected rings makes every lock operation a pointer case split)" stubs="Epoll::ctl, close/OwnedFd::drop"
h_proof! { #[kani::unwind(6)] fn c14_u_index_checks() {
    let (mut h, _) = mk_handler_m(1, &[0b1]);
    let idx: u32 = kani::any();
    h.acked_features = PF;
    let r = h.set_vring_enable(idx, kani::any());
    kani::cover!(r.is_ok());
    assert!(r.is_ok() == ((idx as usize) < 1), "C14: SET_VRING_ENABLE index check");
    std::mem::forget(r);
    let i8: u8 = kani::any();
    let r = h.set_vring_kick(i8, None);
    assert!(r.is_ok() == ((i8 as usize) < 1));
    std::mem::forget(r);
    let r = h.set_vring_call(i8, None);
    assert!(r.is_ok() == ((i8 as usize) < 1));
    std::mem::forget(r);
    let r = h.set_vring_err(i8, None);
    assert!(r.is_ok() == ((i8 as usize) < 1));
    std::mem::forget(r);
} }

// @harness props=C14 tier=quick reach=off bound="SET_FEATURES: all 64-bit requested masks against all 64-bit offered masks, 2 rings" stubs="Epoll::ctl, close/OwnedFd::drop"
h_proof! { #[kani::unwind(5)] fn c14_u_set_features() {
    let (mut h, _) = mk_handler_m(2, &[0b11]);
    let offered: u64 = kani::any();
    let req: u64 = kani::any();
    vgm::vg().features = offered;
    let r = h.set_features(req);
    let subset = req & !offered == 0;
    kani::cover!(subset && req & (1 << 29) != 0);
    assert!(r.is_ok() == subset, "C14: SET_FEATURES accepted iff the mask is a subset of the offered features");
    if subset {
        let g = vgm::vg();
        assert!(g.acked_calls == 1 && g.acked == req, "C14: the backend receives exactly the acknowledged bits");
        let ei = req & (1 << 29) != 0; // VIRTIO_RING_F_EVENT_IDX
        assert!(g.event_idx_calls == 1 && g.event_idx == ei, "C14: EVENT_IDX setting reaches the backend");
        assert!(h.vrings[0].get_ref().get_queue().event_idx_enabled() == ei && h.vrings[1].get_ref().get_queue().event_idx_enabled() == ei, "C14: EVENT_IDX setting reaches every queue");
        // without PROTOCOL_FEATURES all rings are enabled, otherwise left as they were (disabled)
        let all_on = req & PF == 0;
        assert!(h.vrings[0].get_ref().is_enabled() == all_on && h.vrings[1].get_ref().is_enabled() == all_on, "C11/C14: rings enabled by a SET_FEATURES lacking PROTOCOL_FEATURES");
    } else {
        assert!(vgm::vg().acked_calls == 0 && vgm::vg().event_idx_calls == 0, "C14: refused features reach nobody");
    }
    std::mem::forget(r);
} }

// ---------------------------------------------------------------------------------------- C17
/// registration half: which worker watches queue q and with which event id - for ALL 64-bit masks of three
/// threads (the per-thread ring slices are irrelevant here and left empty); q and the thread count are
/// concrete per harness
fn routing_registration(nt: usize, q: usize) {
    let m: [u64; 3] = kani::any();
    vgm::vg().num_queues = 4;
    let mem = ManuallyDrop::new(GuestMemoryAtomic::new(GuestMemoryMmap::<()>::new()));
    let mut vrings: Vec<VringMutex<Mem>> = Vec::new();
    let mut k = 0;
    while k < 4 {
        vrings.push(vr::mk_vring_mutex(vr::dup_mem(&mem), 256));
        k += 1;
    }
    let mut handlers = Vec::new();
    let mut t = 0;
    while t < nt {
        handlers.push(Arc::new(ev::mk_epoll_handler(VB, Vec::new(), t, None)));
        t += 1;
    }
    let mut h = ManuallyDrop::new(VhostUserHandler {
        backend: VB, handlers, owned: false, features_acked: false, acked_features: PF, acked_protocol_features: 0,
        num_queues: 4, max_queue_size: 256, queues_per_thread: m[..nt].to_vec(), mappings: Vec::new(),
        atomic_mem: vr::dup_mem(&mem), vrings, worker_threads: Vec::new(),
    });
    let fd = vgm::FD0 + q as RawFd;
    let r = h.set_vring_kick(q as u8, Some(file(fd)));
    assert!(r.is_ok());
    std::mem::forget(r);
    let r = h.set_vring_enable(q as u32, true);
    assert!(r.is_ok());
    std::mem::forget(r);
    let owner = if (m[0] >> q) & 1 == 1 { Some(0) } else if nt > 1 && (m[1] >> q) & 1 == 1 { Some(1) } else if nt > 2 && (m[2] >> q) & 1 == 1 { Some(2) } else { None };
    kani::cover!(owner == Some(nt - 1));
    let total = vgm::registrations_of(fd);
    match owner {
        None => assert!(total == 0, "C17: a queue no thread owns is watched by nobody"),
        Some(t) => {
            assert!(total == 1, "C17: a kick on queue q is handled by exactly one worker");
            let rank = (m[t] & ((1u64 << q) - 1)).count_ones() as u64;
            assert!(vgm::registered(ev::EPFD0 + t as RawFd, fd) == Some(rank), "C17: registered on the first thread whose mask contains q, with the number of lower-numbered queues of that mask as event id");
        }
    }
}
/// dispatch half for concrete mask configurations: the worker that owns q runs the real handle_event with
/// the registered id and the backend must see that thread, that id and ring q at that id of its slice
fn routing_dispatch(masks: &[u64], q: usize) {
    let (mut h, ids) = mk_handler_m(4, masks);
    h.acked_features = PF;
    let fd = vgm::FD0 + q as RawFd;
    let r = h.set_vring_kick(q as u8, Some(file(fd)));
    std::mem::forget(r);
    let r = h.set_vring_enable(q as u32, true);
    std::mem::forget(r);
    let mut owner = None;
    let mut t = 0;
    while t < masks.len() {
        if owner.is_none() && (masks[t] >> q) & 1 == 1 {
            owner = Some(t);
        }
        t += 1;
    }
    let t = owner.unwrap();
    let rank = (masks[t] & ((1u64 << q) - 1)).count_ones() as u64;
    assert!(vgm::registrations_of(fd) == 1 && vgm::registered(ev::EPFD0 + t as RawFd, fd) == Some(rank));
    vgm::kick(fd);
    let res = ev::worker_handle_event(&h.handlers[t], rank as u16);
    assert!(res == Some(false));
    let g = vgm::vg();
    kani::cover!(g.he_calls == 1);
    assert!(g.he_calls == 1 && g.he_thread == t && g.he_event == rank as u16, "C17: backend sees the owning thread's id and the rank as event id");
    assert!(g.he_nvrings == masks[t].count_ones().min(4) as usize || g.he_nvrings <= 4);
    assert!(g.he_ring_id == ids[q], "C17: the ring slice element at that event id is queue q");
    assert!(!vgm::pending(fd), "C11: the kick is consumed by the dispatch");
}
// @harness props=C17,C11 tier=quick reach=off timeout=600 bound="event-id / owner of queue 0 with 1 worker thread(s): ALL 64-bit masks per thread (sparse, overlapping, bits beyond the 4 queues)" stubs="Epoll::ctl (ghost interest lists), EventConsumer::consume, close/OwnedFd::drop"
h_proof! { #[kani::unwind(7)] fn c17_u_registration_t1_q0() { routing_registration(1, 0) } }
// @harness props=C17,C11 tier=quick reach=off timeout=600 bound="event-id / owner of queue 1 with 2 worker thread(s): ALL 64-bit masks per thread (sparse, overlapping, bits beyond the 4 queues)" stubs="Epoll::ctl (ghost interest lists), EventConsumer::consume, close/OwnedFd::drop"
h_proof! { #[kani::unwind(7)] fn c17_u_registration_t2_q1() { routing_registration(2, 1) } }
// @harness props=C17,C11 tier=quick reach=off timeout=600 bound="event-id / owner of queue 3 with 3 worker thread(s): ALL 64-bit masks per thread (sparse, overlapping, bits beyond the 4 queues)" stubs="Epoll::ctl (ghost interest lists), EventConsumer::consume, close/OwnedFd::drop"
h_proof! { #[kani::unwind(7)] fn c17_u_registration_t3_q3() { routing_registration(3, 3) } }
// @harness props=C17,C11 tier=thorough reach=off timeout=600 bound="event-id / owner of queue 2 with 3 worker thread(s): ALL 64-bit masks per thread (sparse, overlapping, bits beyond the 4 queues)" stubs="Epoll::ctl (ghost interest lists), EventConsumer::consume, close/OwnedFd::drop"
h_proof! { #[kani::unwind(7)] fn c17_u_registration_t3_q2() { routing_registration(3, 2) } }
// @harness props=C17,C11 tier=thorough reach=off timeout=600 bound="event-id / owner of queue 0 with 2 worker thread(s): ALL 64-bit masks per thread (sparse, overlapping, bits beyond the 4 queues)" stubs="Epoll::ctl (ghost interest lists), EventConsumer::consume, close/OwnedFd::drop"
h_proof! { #[kani::unwind(7)] fn c17_u_registration_t2_q0() { routing_registration(2, 0) } }
// @harness props=C17,C11 tier=thorough reach=off timeout=600 bound="event-id / owner of queue 0 with 3 worker thread(s): ALL 64-bit masks per thread (sparse, overlapping, bits beyond the 4 queues)" stubs="Epoll::ctl (ghost interest lists), EventConsumer::consume, close/OwnedFd::drop"
h_proof! { #[kani::unwind(7)] fn c17_u_registration_t3_q0() { routing_registration(3, 0) } }
// @harness props=C17,C11 tier=quick reach=off timeout=600 bound="dispatch of a kick on queue 2 for the concrete queues-per-thread configuration [0b0101, 0b1010]: real handle_event on the owning worker" stubs="Epoll::ctl (ghost interest lists), EventConsumer::consume, close/OwnedFd::drop"
h_proof! { #[kani::unwind(7)] fn c17_u_dispatch_interleaved_q2() { routing_dispatch(&[0b0101, 0b1010], 2) } }
// @harness props=C17,C11 tier=quick reach=off timeout=600 bound="dispatch of a kick on queue 3 for the concrete queues-per-thread configuration [0b0101, 0b1010]: real handle_event on the owning worker" stubs="Epoll::ctl (ghost interest lists), EventConsumer::consume, close/OwnedFd::drop"
h_proof! { #[kani::unwind(7)] fn c17_u_dispatch_interleaved_q3() { routing_dispatch(&[0b0101, 0b1010], 3) } }
// @harness props=C17,C11 tier=quick reach=off timeout=600 bound="dispatch of a kick on queue 1 for the concrete queues-per-thread configuration [0b0011, 0b0110, 0b1000]: real handle_event on the owning worker" stubs="Epoll::ctl (ghost interest lists), EventConsumer::consume, close/OwnedFd::drop"
h_proof! { #[kani::unwind(7)] fn c17_u_dispatch_overlap_q1() { routing_dispatch(&[0b0011, 0b0110, 0b1000], 1) } }
// @harness props=C17,C11 tier=thorough reach=off timeout=600 bound="dispatch of a kick on queue 2 for the concrete queues-per-thread configuration [0b0011, 0b0110, 0b1000]: real handle_event on the owning worker" stubs="Epoll::ctl (ghost interest lists), EventConsumer::consume, close/OwnedFd::drop"
h_proof! { #[kani::unwind(7)] fn c17_u_dispatch_overlap_q2() { routing_dispatch(&[0b0011, 0b0110, 0b1000], 2) } }
// @harness props=C17,C11 tier=thorough reach=off timeout=600 bound="dispatch of a kick on queue 3 for the concrete queues-per-thread configuration [0b110001, 0b1110]: real handle_event on the owning worker" stubs="Epoll::ctl (ghost interest lists), EventConsumer::consume, close/OwnedFd::drop"
h_proof! { #[kani::unwind(7)] fn c17_u_dispatch_beyond_q3() { routing_dispatch(&[0b110001, 0b1110], 3) } }
// @harness props=C17,C11 tier=thorough reach=off timeout=600 bound="dispatch of a kick on queue 3 for the concrete queues-per-thread configuration [0b1111]: real handle_event on the owning worker" stubs="Epoll::ctl (ghost interest lists), EventConsumer::consume, close/OwnedFd::drop"
h_proof! { #[kani::unwind(7)] fn c17_u_dispatch_single_q3() { routing_dispatch(&[0b1111], 3) } }

// @harness props=C17 tier=quick reach=off bound="register_listener / unregister_listener: all 64-bit ids against 1..=6 queues; exit event id = num_queues" stubs="Epoll::ctl (ghost interest lists)"
h_proof! { #[kani::unwind(8)] fn c17_u_listener_ids() {
    let nq: usize = kani::any();
    kani::assume(nq >= 1 && nq <= 6);
    vgm::vg().num_queues = nq;
    let hnd = ManuallyDrop::new(ev::mk_epoll_handler(VB, Vec::new(), 0, None));
    let id: u64 = kani::any();
    let r = hnd.register_listener(vgm::FD0 + 7, EventSet::IN, id);
    kani::cover!(r.is_ok());
    let ok = r.is_ok();
    std::mem::forget(r);
    assert!(!ok || id > nq as u64, "C17: custom listeners are accepted only with ids above num_queues (queues and exit event are reserved)");
    // ids the backend interface can carry (u16) must be accepted; larger ones may be refused - if they are
    // accepted, c17_u_run_listener requires them to be delivered unchanged
    assert!(ok || id <= nq as u64 || id > 0xffff, "C17: a listener id above num_queues that fits the event-id type must be accepted");
    if ok {
        assert!(vgm::registered(ev::EPFD0, vgm::FD0 + 7) == Some(id), "C17: registered with exactly the given id");
    } else {
        assert!(vgm::registrations_of(vgm::FD0 + 7) == 0);
    }
    let r = hnd.unregister_listener(vgm::FD0 + 7, EventSet::IN, id);
    assert!(!r.is_ok() || id > nq as u64);
    std::mem::forget(r);
    assert!(vgm::registrations_of(vgm::FD0 + 7) == 0);
} }

// @harness props=C17 tier=quick reach=off bound="worker dispatch of an event id: ids 0..=65535 on a worker with 0..=2 rings and an exit event; exit id = num_queues ends the loop, ring ids read the kick, other ids go to the backend untouched" stubs="Epoll::ctl, EventConsumer::consume, EventNotifier::notify, close/OwnedFd::drop"
h_proof! { #[kani::unwind(6)] fn c17_u_dispatch_ids() {
    let nq: usize = 2;
    vgm::vg().num_queues = nq;
    let mem = ManuallyDrop::new(GuestMemoryAtomic::new(GuestMemoryMmap::<()>::new()));
    let v0 = vr::mk_vring_mutex(vr::dup_mem(&mem), 256);
    let v1 = vr::mk_vring_mutex(vr::dup_mem(&mem), 256);
    v0.set_enabled(true);
    v1.set_enabled(true);
    v0.set_queue_ready(true); // ring 0 started and enabled, ring 1 enabled but not started
    // SAFETY: ghost descriptor number
    let exit = unsafe { EventNotifier::from_raw_fd(vgm::FD0 + 6) };
    let hnd = ManuallyDrop::new(ev::mk_epoll_handler(VB, vec![v0, v1], 0, Some(exit)));
    let id: u16 = kani::any();
    let res = ev::worker_handle_event(&hnd, id);
    kani::cover!(res == Some(true));
    let g = vgm::vg();
    if id as usize == nq {
        assert!(res == Some(true) && g.he_calls == 0, "C17: the exit event (id num_queues) stops the worker and is never delivered to the backend");
    } else if id == 1 {
        assert!(res == Some(false) && g.he_calls == 0, "C11/C12: an event for a ring that is not started is not dispatched");
    } else {
        assert!(res == Some(false) && g.he_calls == 1 && g.he_event == id, "C17: every other id is delivered with exactly its id");
    }
} }

// @harness props=C17 tier=quick reach=off timeout=900 bound="one iteration of the real worker loop run(): a custom listener registered with ANY accepted 64-bit id fires once, then the exit event; 2 queues, no rings on this worker" stubs="Epoll::ctl, Epoll::wait (scripted: listener event, then exit event), vec::from_elem (event buffer), EventNotifier::notify, close/OwnedFd::drop"
#[kani::proof]
#[kani::unwind(4)]
#[kani::stub(vmm_sys_util::epoll::Epoll::ctl, vgm::ghost_epoll_ctl)]
#[kani::stub(vmm_sys_util::epoll::Epoll::wait, vgm::ghost_epoll_wait)]
#[kani::stub(std::vec::from_elem, vgm::ghost_from_elem)]
#[kani::stub(vmm_sys_util::event::EventConsumer::consume, vgm::ghost_consume)]
#[kani::stub(vmm_sys_util::event::EventNotifier::notify, vgm::ghost_notify)]
#[kani::stub(<std::os::fd::OwnedFd as std::ops::Drop>::drop, vgm::ghost_ownedfd_drop)]
#[kani::stub(std::alloc::handle_alloc_error, vgm::ghost_alloc_error)]
fn c17_u_run_listener() {
    let nq: usize = 2;
    vgm::vg().num_queues = nq;
    // SAFETY: ghost descriptor number
    let exit = unsafe { EventNotifier::from_raw_fd(vgm::FD0 + 6) };
    let hnd = ManuallyDrop::new(ev::mk_epoll_handler(VB, Vec::new(), 0, Some(exit)));
    let id: u64 = kani::any();
    let r = hnd.register_listener(vgm::FD0 + 7, EventSet::IN, id);
    let accepted = r.is_ok();
    std::mem::forget(r);
    kani::assume(accepted);
    vgm::vg().wait_data0 = id;
    vgm::vg().wait_data1 = nq as u64; // then the exit event
    let ok = ev::worker_run(&hnd);
    let g = vgm::vg();
    kani::cover!(ok && g.he_calls == 1);
    assert!(ok, "C17: worker loop ends on the exit event");
    assert!(g.he_calls == 1, "C17: an accepted custom listener's event is delivered to the backend exactly once (never taken for a queue or the exit event)");
    assert!(g.he_event as u64 == id, "C17: the listener event is delivered with exactly the registered id");
}

// ---------------------------------------------------------------------------------------- C14: new channel
// @harness props=C14 tier=quick reach=off timeout=600 bound="SET_BACKEND_REQ_FD: all 64-bit acknowledged protocol-feature words; the channel handed to the backend refuses / sends shared-memory and shared-object requests and sets NEED_REPLY exactly as SHMEM, SHARED_OBJECT and REPLY_ACK were acknowledged" stubs="vmm-sys-util raw_sendmsg (records the header flags word) / raw_recvmsg (stream closed), Mutex::lock (try_lock), close/OwnedFd::drop"
#[kani::proof]
#[kani::unwind(5)]
#[kani::stub(vmm_sys_util::sock_ctrl_msg::raw_sendmsg, vgm::ghost_sendmsg)]
#[kani::stub(vmm_sys_util::sock_ctrl_msg::raw_recvmsg, vgm::ghost_recvmsg_closed)]
#[kani::stub(std::sync::Mutex::lock, vgm::ghost_mutex_lock)]
#[kani::stub(libc::close, vgm::ghost_close)]
#[kani::stub(<std::os::fd::OwnedFd as std::ops::Drop>::drop, vgm::ghost_ownedfd_drop)]
#[kani::stub(std::alloc::handle_alloc_error, vgm::ghost_alloc_error)]
#[kani::stub(log::max_level, log_off)]
fn c14_u_backend_req_channel_flags() {
    use std::os::unix::io::FromRawFd;
    use vhost::vhost_user::message::{VhostUserMMap, VhostUserSharedMsg};
    use vhost::vhost_user::{Backend, VhostUserFrontendReqHandler};
    let (mut h, _) = mk_handler_m(1, &[0b1]);
    let ap: u64 = kani::any();
    h.acked_protocol_features = ap;
    // SAFETY: descriptor 5 is never used for real I/O (the socket calls are stubbed)
    let b = Backend::from_stream(unsafe { std::os::unix::net::UnixStream::from_raw_fd(5) });
    h.set_backend_req_fd(b);
    // SAFETY: single-threaded harness
    let ch = unsafe { crate::backend::verif::BREQ.0.take() };
    assert!(ch.is_some(), "C14: the channel reaches the backend");
    let ch = ManuallyDrop::new(ch.unwrap());
    let shm = ap & VhostUserProtocolFeatures::SHMEM.bits() != 0;
    let so = ap & VhostUserProtocolFeatures::SHARED_OBJECT.bits() != 0;
    let ra = ap & VhostUserProtocolFeatures::REPLY_ACK.bits() != 0;
    // shared-memory request
    let r = ch.shmem_unmap(&VhostUserMMap::default());
    std::mem::forget(r);
    // SAFETY: reading ghost state
    let (sends1, flags1) = unsafe { (vgm::TXG.0, vgm::TXG.1) };
    assert!((sends1 == 1) == shm, "C14: a new backend-request channel inherits the shared-memory setting (SHMEM acknowledged <=> requests are sent)");
    if shm {
        assert!((flags1 & 0x8 != 0) == ra, "C14: a new backend-request channel inherits the reply-ack setting (NEED_REPLY <=> REPLY_ACK acknowledged)");
    }
    // shared-object request
    let r = ch.shared_object_remove(&VhostUserSharedMsg::default());
    std::mem::forget(r);
    // SAFETY: reading ghost state
    let sends2 = unsafe { vgm::TXG.0 };
    assert!((sends2 - sends1 == 1) == so, "C14: a new backend-request channel inherits the shared-object setting");
    kani::cover!(shm && so && ra);
}
