// harnesses for vub_handler
