// Child module of vhost_user_backend::vring: constructors by struct literal (VringState::new cannot be
// compiled by Kani 0.68: its error path instantiates the drop glue of GuestMemoryAtomic -> ArcSwap -> TLS
// destructor -> catch_unwind) and ring identity helpers; C09/C14 unit harnesses on the descriptors a ring holds.
use super::*;
use crate::verif as vgm;
use std::mem::ManuallyDrop;
use std::os::unix::io::AsRawFd;

pub(crate) type M = GuestMemoryAtomic<GuestMemoryMmap<()>>;

/// duplicate the handle bitwise (never dropped; every owner is leaked at the end of the harness)
pub(crate) fn dup_mem(m: &ManuallyDrop<M>) -> M {
    // SAFETY: all copies are forgotten, the reference count is never decremented
    unsafe { std::ptr::read(&**m) }
}
pub(crate) fn mk_state(mem: M, max: u16) -> VringState<M> {
    VringState { queue: Queue::new(max).unwrap(), kick: None, call: None, err: None, enabled: false, mem }
}
pub(crate) fn mk_vring_mutex(mem: M, max: u16) -> VringMutex<M> {
    let v = VringMutex { state: Arc::new(Mutex::new(mk_state(mem, max))) };
    {
        // re-assign the plain fields in place: the move into the Arc is a memcpy for CBMC, after which it no
        // longer treats them as constants (then e.g. Queue::try_set_size's error path is explored everywhere)
        let mut g = v.state.lock().unwrap();
        let fresh = Queue::new(max).unwrap();
        g.queue = fresh;
        g.enabled = false;
    }
    v
}
pub(crate) fn mk_vring_rwlock(mem: M, max: u16) -> VringRwLock<M> {
    VringRwLock { state: Arc::new(RwLock::new(mk_state(mem, max))) }
}
pub(crate) fn ring_id_mutex(v: &VringMutex<M>) -> usize {
    Arc::as_ptr(&v.state) as *const u8 as usize
}
pub(crate) fn ring_id_rwlock(v: &VringRwLock<M>) -> usize {
    Arc::as_ptr(&v.state) as *const u8 as usize
}
pub(crate) fn kick_fd<V: VringT<M>>(v: &V) -> Option<RawFdT> {
    v.get_ref().get_kick().as_ref().map(|k| k.as_raw_fd())
}
pub(crate) type RawFdT = std::os::unix::io::RawFd;
pub(crate) fn call_fd<V: VringT<M>>(v: &V) -> Option<RawFdT> {
    v.get_ref().call.as_ref().map(|c| c.as_raw_fd())
}
pub(crate) fn is_started<V: VringT<M>>(v: &V) -> bool {
    v.get_ref().get_queue().ready()
}
pub(crate) fn is_enabled<V: VringT<M>>(v: &V) -> bool {
    v.get_ref().is_enabled()
}
pub(crate) fn is_active<V: VringT<M>>(v: &V) -> bool {
    let s = v.get_ref();
    s.get_queue().ready() && s.is_enabled()
}

macro_rules! v_proof {
    ($(#[$m:meta])* fn $name:ident() $body:block) => {
        $(#[$m])*
        #[kani::proof]
        #[kani::unwind(10)]
        #[kani::stub(vmm_sys_util::event::EventConsumer::consume, vgm::ghost_consume)]
        #[kani::stub(vmm_sys_util::event::EventNotifier::notify, vgm::ghost_notify)]
        #[kani::stub(libc::close, vgm::ghost_close)]
        #[kani::stub(<std::os::fd::OwnedFd as std::ops::Drop>::drop, vgm::ghost_ownedfd_drop)]
        #[kani::stub(std::alloc::handle_alloc_error, vgm::ghost_alloc_error)]
        fn $name() $body
    };
}
fn file(fd: RawFdT) -> File {
    // SAFETY: ghost descriptor number, never used for I/O
    unsafe { File::from_raw_fd(fd) }
}

// @harness props=C09,C14 tier=quick reach=off bound="VringState set_kick/set_call/set_err: replace / clear in any order (3 symbolic steps over 3 slots), signal_used_queue after each" stubs="EventNotifier::notify, close/OwnedFd::drop (ghost descriptor table)"
v_proof! { fn c09_u_vring_fds() {
    let mem = ManuallyDrop::new(GuestMemoryAtomic::new(GuestMemoryMmap::<()>::new()));
    let mut st = ManuallyDrop::new(mk_state(dup_mem(&mem), 256));
    // current descriptor per slot (kick, call, err); fresh numbers 200, 201, ...
    let mut cur: [Option<RawFdT>; 3] = [None, None, None];
    let mut next = vgm::FD0;
    let mut step = 0;
    while step < 3 {
        let which: u8 = kani::any();
        kani::assume(which < 3);
        let install: bool = kani::any();
        let newfd = if install { let f = next; next += 1; Some(f) } else { None };
        let arg = newfd.map(file);
        match which {
            0 => st.set_kick(arg),
            1 => st.set_call(arg),
            _ => st.set_err(arg),
        }
        // C09: the descriptor that was replaced / cleared is closed exactly once, the others stay open
        if let Some(old) = cur[which as usize] {
            assert!(vgm::vg().closed[(old - vgm::FD0) as usize], "C09: replaced descriptor must be closed");
        }
        cur[which as usize] = newfd;
        let mut k = 0;
        while k < 3 {
            if let Some(fd) = cur[k] {
                assert!(!vgm::vg().closed[(fd - vgm::FD0) as usize], "C09: a descriptor still installed was closed");
            }
            k += 1;
        }
        assert!(!vgm::vg().double_close, "C09: double close");
        // C14: used-buffer signalling goes to the call descriptor installed most recently, or nowhere
        let before = vgm::vg().notified;
        let r = st.signal_used_queue();
        assert!(r.is_ok());
        std::mem::forget(r);
        let mut j = 0;
        while j < 3 {
            let fd = vgm::FD0 + j as RawFdT;
            let exp = if cur[1] == Some(fd) { 1 } else { 0 };
            assert!(vgm::vg().notified[j] == before[j] + exp, "C14: signal_used_queue notifies exactly the current call descriptor");
            j += 1;
        }
        step += 1;
    }
    kani::cover!(cur[1].is_some() && vgm::vg().closed[0]);
} }
