// harnesses for vub_vring
