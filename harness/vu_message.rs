// Child module of vhost::vhost_user::message.
// C20: validators vs. the reference predicates of spec.rs, every bit pattern symbolic.
// C01 (unit level): constructors/ByteValued images vs. the spec layout.
use super::*;
use crate::vhost_user::verif::spec;

fn from_bytes<T: ByteValued, const N: usize>(b: &[u8; N]) -> T {
    assert!(core::mem::size_of::<T>() == N);
    // SAFETY: T is ByteValued (plain old data) and N == size_of::<T>().
    unsafe { core::ptr::read_unaligned(b.as_ptr() as *const T) }
}

// @harness props=C20 tier=quick native=yes bound="all 2^96 header bit patterns (request,flags,size)"
#[kani::proof]
fn c20_header_frontend() {
    let b: [u8; 12] = kani::any();
    let h: VhostUserMsgHeader<FrontendReq> = from_bytes(&b);
    let code = spec::rd32(&b, 0);
    let exp = spec::valid_header(spec::frontend_code_known(code), spec::rd32(&b, 4), spec::rd32(&b, 8));
    assert!(h.is_valid() == exp);
    kani::cover!(h.is_valid());
    kani::cover!(!h.is_valid());
}

// @harness props=C20 tier=quick native=yes bound="all 2^96 header bit patterns (request,flags,size)"
#[kani::proof]
fn c20_header_backend() {
    let b: [u8; 12] = kani::any();
    let h: VhostUserMsgHeader<BackendReq> = from_bytes(&b);
    let code = spec::rd32(&b, 0);
    let exp = spec::valid_header(spec::backend_code_known(code), spec::rd32(&b, 4), spec::rd32(&b, 8));
    assert!(h.is_valid() == exp);
    kani::cover!(h.is_valid());
    kani::cover!(!h.is_valid());
}

// @harness props=C20,C01 tier=quick native=yes bound="all u32 request codes, three request spaces"
#[kani::proof]
fn c20_request_codes() {
    let c: u32 = kani::any();
    assert!(FrontendReq::try_from(c).is_ok() == spec::frontend_code_known(c));
    assert!(BackendReq::try_from(c).is_ok() == spec::backend_code_known(c));
    if let Ok(r) = FrontendReq::try_from(c) {
        assert!(u32::from(r) == c);
    }
    if let Ok(r) = BackendReq::try_from(c) {
        assert!(u32::from(r) == c);
    }
    kani::cover!(FrontendReq::try_from(c).is_ok());
    kani::cover!(BackendReq::try_from(c).is_err());
}

// @harness props=C20 tier=quick native=yes bound="all 2^64 bit patterns"
#[kani::proof]
fn c20_memory() {
    let b: [u8; 8] = kani::any();
    let m: VhostUserMemory = from_bytes(&b);
    assert!(m.is_valid() == spec::valid_memory(&b));
    kani::cover!(m.is_valid());
    kani::cover!(!m.is_valid());
}

// @harness props=C20 tier=quick native=yes bound="all 2^256 bit patterns"
#[kani::proof]
fn c20_memory_region() {
    let b: [u8; 32] = kani::any();
    let m: VhostUserMemoryRegion = from_bytes(&b);
    assert!(VhostUserMsgValidator::is_valid(&m) == spec::valid_region(&b, 0));
    kani::cover!(VhostUserMsgValidator::is_valid(&m));
    kani::cover!(!VhostUserMsgValidator::is_valid(&m));
}

// @harness props=C20,C05 tier=quick native=yes bound="all 2^320 bit patterns"
#[kani::proof]
fn c20_single_region() {
    let b: [u8; 40] = kani::any();
    let m: VhostUserSingleMemoryRegion = from_bytes(&b);
    assert!(VhostUserMsgValidator::is_valid(&m) == spec::valid_single_region(&b));
    kani::cover!(VhostUserMsgValidator::is_valid(&m));
    kani::cover!(spec::valid_single_region(&b));
    kani::cover!(!spec::valid_single_region(&b));
}

// @harness props=C20 tier=quick native=yes bound="all 2^320 bit patterns"
#[kani::proof]
fn c20_vring_addr() {
    let b: [u8; 40] = kani::any();
    let m: VhostUserVringAddr = from_bytes(&b);
    assert!(m.is_valid() == spec::valid_vring_addr(&b));
    kani::cover!(m.is_valid());
    kani::cover!(!m.is_valid());
}

// @harness props=C20 tier=quick native=yes bound="all 2^96 bit patterns"
#[kani::proof]
fn c20_config() {
    let b: [u8; 12] = kani::any();
    let m: VhostUserConfig = from_bytes(&b);
    assert!(m.is_valid() == spec::valid_config(&b));
    kani::cover!(m.is_valid());
    kani::cover!(!m.is_valid());
}

// @harness props=C20 tier=quick native=yes bound="all 2^192 bit patterns (incl. 4 padding bytes)"
#[kani::proof]
fn c20_inflight() {
    let b: [u8; 24] = kani::any();
    let m: VhostUserInflight = from_bytes(&b);
    assert!(m.is_valid() == spec::valid_inflight(&b));
    kani::cover!(m.is_valid());
    kani::cover!(!m.is_valid());
}

// @harness props=C20 tier=quick native=yes bound="all 2^128 bit patterns"
#[kani::proof]
fn c20_log() {
    let b: [u8; 16] = kani::any();
    let m: VhostUserLog = from_bytes(&b);
    assert!(m.is_valid() == spec::valid_log(&b));
    kani::cover!(m.is_valid());
    kani::cover!(!m.is_valid());
}

// @harness props=C20 tier=quick native=yes bound="all 2^64 bit patterns"
#[kani::proof]
fn c20_devstate() {
    let b: [u8; 8] = kani::any();
    let m: VhostUserTransferDeviceState = from_bytes(&b);
    assert!(m.is_valid() == spec::valid_devstate(&b));
    assert!(VhostTransferStateDirection::try_from(spec::rd32(&b, 0)).is_ok() == (spec::rd32(&b, 0) <= 1));
    assert!(VhostTransferStatePhase::try_from(spec::rd32(&b, 4)).is_ok() == (spec::rd32(&b, 4) == 0));
    kani::cover!(m.is_valid());
    kani::cover!(!m.is_valid());
}

// @harness props=C20 tier=quick native=yes bound="all 2^128 bit patterns"
#[kani::proof]
#[kani::unwind(17)]
fn c20_shared() {
    let b: [u8; 16] = kani::any();
    let m: VhostUserSharedMsg = from_bytes(&b);
    assert!(m.is_valid() == spec::valid_shared(&b));
    kani::cover!(m.is_valid());
    kani::cover!(!m.is_valid());
}

// @harness props=C20 tier=quick native=yes bound="all 2^320 bit patterns"
#[kani::proof]
fn c20_mmap() {
    let b: [u8; 40] = kani::any();
    let m: VhostUserMMap = from_bytes(&b);
    assert!(m.is_valid() == spec::valid_mmap(&b));
    kani::cover!(m.is_valid());
    kani::cover!(!m.is_valid());
}

// @harness props=C20 tier=quick native=yes bound="all bit patterns of u64 / vring-state bodies (always valid)"
#[kani::proof]
fn c20_trivial_bodies() {
    let b: [u8; 8] = kani::any();
    let u: VhostUserU64 = from_bytes(&b);
    let s: VhostUserVringState = from_bytes(&b);
    assert!(u.is_valid());
    assert!(s.is_valid());
    assert!(VhostUserEmpty.is_valid());
}
