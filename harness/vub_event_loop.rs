// Child module of vhost_user_backend::event_loop: literal constructor for VringEpollHandler (its `new`
// cannot be compiled by Kani 0.68, see vub_vring.rs), access to the private handle_event, C17 unit harnesses.
use super::*;
use crate::verif as vgm;

pub(crate) const EPFD0: RawFd = 77; // epoll descriptor of worker thread t is EPFD0 + t

pub(crate) fn mk_epoll_handler<T: VhostUserBackend>(backend: T, vrings: Vec<T::Vring>, thread_id: usize, exit: Option<EventNotifier>) -> VringEpollHandler<T> {
    VringEpollHandler {
        // SAFETY: Epoll is a plain wrapper around the descriptor number; every method is stubbed
        epoll: unsafe { std::mem::transmute::<RawFd, Epoll>(EPFD0 + thread_id as RawFd) },
        backend,
        vrings,
        thread_id,
        exit_event_fd: exit,
        phantom: PhantomData,
    }
}
/// the worker's reaction to one epoll event (the real private function)
pub(crate) fn worker_handle_event<T: VhostUserBackend>(h: &VringEpollHandler<T>, device_event: u16) -> Option<bool> {
    let r = h.handle_event(device_event, EventSet::IN);
    let out = match &r {
        Ok(b) => Some(*b),
        Err(_) => None,
    };
    std::mem::forget(r);
    out
}
pub(crate) fn epfd<T: VhostUserBackend>(h: &VringEpollHandler<T>) -> RawFd {
    h.epoll.as_raw_fd()
}

pub(crate) fn worker_run<T: VhostUserBackend>(h: &VringEpollHandler<T>) -> bool {
    let r = h.run();
    let ok = r.is_ok();
    std::mem::forget(r);
    ok
}
