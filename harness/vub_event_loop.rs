// harnesses for vub_event_loop
