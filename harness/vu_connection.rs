// Child module of vhost::vhost_user::connection.
use super::*;
use crate::vhost_user::verif::ghost as g;
use crate::vhost_user::verif::spec;

fn ep() -> std::mem::ManuallyDrop<Endpoint<VhostUserMsgHeader<FrontendReq>>> {
    // SAFETY: descriptor 5 is never used for real I/O (all socket calls are stubbed)
    std::mem::ManuallyDrop::new(Endpoint::from_stream(unsafe { UnixStream::from_raw_fd(5) }))
}

macro_rules! c_stubs {
    ($(#[$m:meta])* fn $name:ident() $body:block) => {
        $(#[$m])*
        #[kani::proof]
        #[kani::stub(vmm_sys_util::sock_ctrl_msg::raw_recvmsg, g::ghost_recvmsg)]
        #[kani::stub(vmm_sys_util::sock_ctrl_msg::raw_sendmsg, g::ghost_sendmsg)]
        #[kani::stub(libc::close, g::ghost_close)]
        #[kani::stub(<std::os::fd::OwnedFd as std::ops::Drop>::drop, g::ghost_ownedfd_drop)]
        #[kani::stub(std::alloc::handle_alloc_error, g::ghost_alloc_error)]
        fn $name() $body
    };
}

// @harness props=C08 tier=quick native=yes bound="get_sub_iovs_offset: 0..=3 lengths, all usize lengths whose sum does not overflow, all skip sizes"
#[kani::proof]
#[kani::unwind(5)]
fn c08_u_sub_iovs_offset() {
    let lens: [usize; 3] = kani::any();
    let n: usize = kani::any();
    kani::assume(n <= 3);
    let skip: usize = kani::any();
    // lengths of real buffers: their sum fits in usize
    kani::assume(lens[0] <= usize::MAX / 4 && lens[1] <= usize::MAX / 4 && lens[2] <= usize::MAX / 4);
    let (k, off) = get_sub_iovs_offset(&lens[..n], skip);
    // reference: first index whose prefix sum exceeds skip
    let p0 = if n > 0 { lens[0] } else { 0 };
    let p1 = if n > 1 { p0 + lens[1] } else { p0 };
    let p2 = if n > 2 { p1 + lens[2] } else { p1 };
    let (ek, eoff) = if n > 0 && skip < p0 { (0, skip) }
        else if n > 1 && skip < p1 { (1, skip - p0) }
        else if n > 2 && skip < p2 { (2, skip - p1) }
        else { (n, skip - p2) };
    kani::cover!(k == 1 && off > 0);
    assert!(k == ek && off == eoff, "C08: offset of the resume point inside the scatter list");
}

fn data_split(cut: usize) {
    let mut e = ep();
    let body: u64 = kani::any();
    // SAFETY: ghost state
    unsafe {
        g::put64(0, body);
        g::G.rx_len = 8;
        g::G.rx_cut[0] = cut;
        g::G.rx_closed = false;
    }
    let r = e.recv_data(8);
    kani::cover!(r.is_ok());
    match &r {
        Ok((n, v)) => {
            assert!(*n == 8, "C08: a body split across segments must be read completely");
            assert!(spec::rd64(&v[..], 0) == body, "C08: same bytes whatever the segmentation");
        }
        Err(_) => assert!(false, "C08: segmentation is not an error"),
    }
    // SAFETY: ghost state
    unsafe { assert!(!g::G.blocked, "C08: never read beyond the requested length") };
    std::mem::forget(r);
}
fn data_truncated(c: usize) {
    let mut e = ep();
    // SAFETY: ghost state
    unsafe {
        g::put64(0, kani::any());
        g::G.rx_len = c;
        g::G.rx_closed = true;
    }
    let r = e.recv_data(8);
    kani::cover!(r.is_ok() || r.is_err());
    match &r {
        Ok((n, _)) => assert!(*n == c && *n < 8, "C08: a truncated body is reported short (callers turn that into an error)"),
        // recv_data reads the body of a message whose header has been consumed: the stream ending here is
        // never at a message boundary
        Err(Error::Disconnected) => assert!(false, "C08: 'disconnected' only at a message boundary (not while reading a message body)"),
        Err(_) => {}
    }
    std::mem::forget(r);
}

/// A header that arrives with `n` descriptors attached, n around the library's limit of 32 per message:
/// whatever recv_header returns, once its result is dropped every descriptor the kernel installed in this
/// process has been closed (none is lost because the receive buffer was larger than what gets wrapped).
fn hdr_many_fds(n: usize) {
    let mut e = ep();
    // SAFETY: ghost state
    unsafe {
        g::put_hdr(0, 8, 1, 8);
        g::G.rx_len = 12;
        g::G.rx_closed = true;
        g::G.rx_big = n;
    }
    let r = e.recv_header();
    kani::cover!(r.is_ok() || r.is_err());
    if let Ok((_, files)) = &r {
        assert!(files.as_ref().map_or(0, |f| f.len()) == n, "C09: every received descriptor is handed on");
    }
    drop(r);
    // SAFETY: ghost state
    unsafe {
        assert!(g::G.big_closed == g::G.big_open, "C09: a descriptor installed by recvmsg was neither handed on nor closed (leak)");
        assert!(!g::G.blocked);
    }
}

// The cut positions / accept sizes below are concrete per harness: with symbolic cuts the resume offsets
// inside recv_into_iovec_all/send_iovec_all become symbolic and CBMC can no longer bound those loops
// (measured: 1.6M steps and out of memory for a 12-byte header).  Values: see each instantiation.
fn hdr_split(c0: usize, c1: usize) {
    let mut e = ep();
    let flags: u32 = kani::any();
    let size: u32 = kani::any();
    let code: u32 = 8;
    let nfds: usize = kani::any();
    kani::assume(nfds <= 2);
    // SAFETY: ghost state
    unsafe {
        g::put_hdr(0, code, flags, size);
        g::G.rx_len = 12;
        g::G.rx_cut = [c0, c1];
        g::G.rx_nfds = nfds;
        g::G.rx_fd_call = 1;
        g::G.rx_closed = false;
    }
    let r = e.recv_header();
    let valid = spec::valid_header(true, flags, size);
    kani::cover!(r.is_ok() && nfds == 2);
    match &r {
        Ok((h, files)) => {
            assert!(valid, "C05/C20: invalid header accepted");
            assert!(h.get_size() == size && h.is_need_reply() == (flags & 8 != 0) && h.is_reply() == (flags & 4 != 0), "C08: same header whatever the segmentation");
            assert!(h.get_code().map(|c| c as u32 == code).unwrap_or(false));
            assert!(files.as_ref().map_or(0, |f| f.len()) == nfds, "C08: descriptors of the first segment are kept");
        }
        Err(_) => {
            assert!(!valid, "C08: a well-formed header must be accepted whatever the segmentation");
            // SAFETY: ghost state
            unsafe {
                assert!(g::G.fd_state[0] != g::FD_OPEN && g::G.fd_state[1] != g::FD_OPEN, "C09: descriptors attached to a header that is refused (wrong version, reserved flag bits, oversized) are closed by the library");
            }
        }
    }
    // SAFETY: ghost state
    unsafe { assert!(!g::G.blocked && g::G.rx_pos == 12, "C08: exactly the header is consumed") };
    // SAFETY: ghost state
    unsafe { assert!(!g::G.double_close, "C09: double close") };
    std::mem::forget(r);
}
fn hdr_truncated(c: usize) {
    let mut e = ep();
    let nfds: usize = kani::any();
    kani::assume(nfds <= 2);
    // SAFETY: ghost state
    unsafe {
        g::put_hdr(0, 8, 1, 8);
        g::G.rx_len = c;
        g::G.rx_closed = true;
        g::G.rx_nfds = nfds; // descriptors ride on the first byte, if any arrives
        g::G.rx_fd_call = 1;
    }
    let r = e.recv_header();
    kani::cover!(r.is_err());
    match &r {
        Ok(_) => assert!(false, "C08: truncated header accepted"),
        Err(Error::Disconnected) => assert!(c == 0, "C08: 'disconnected' only at a message boundary"),
        Err(Error::PartialMessage) => assert!(c > 0),
        Err(_) => assert!(false, "C08: unexpected error class for a truncated header"),
    }
    // SAFETY: ghost state
    unsafe {
        assert!(!g::G.blocked, "C03/C08: no wait on a closed stream");
        assert!(!g::G.double_close && g::G.fd_state[0] != g::FD_OPEN && g::G.fd_state[1] != g::FD_OPEN, "C09: descriptors that arrived with a header cut short by the end of the stream are closed");
    }
    std::mem::forget(r);
}
fn body_split(c0: usize, c1: usize) {
    let mut e = ep();
    let val: u64 = kani::any();
    let nfds: usize = kani::any();
    kani::assume(nfds <= 2);
    // SAFETY: ghost state
    unsafe {
        g::put_hdr(0, 1, 5, 8);
        g::put64(12, val);
        g::G.rx_len = 20;
        g::G.rx_cut = [c0, c1];
        g::G.rx_nfds = nfds;
        g::G.rx_closed = false;
    }
    let r = e.recv_body::<VhostUserU64>();
    kani::cover!(r.is_ok());
    match &r {
        Ok((h, b, files)) => {
            assert!(h.get_size() == 8 && h.is_reply());
            assert!(b.value == val, "C08: same body whatever the segmentation");
            assert!(files.as_ref().map_or(0, |f| f.len()) == nfds);
        }
        Err(_) => assert!(false, "C08: segmentation is not an error"),
    }
    // SAFETY: ghost state
    unsafe { assert!(!g::G.blocked && g::G.rx_pos == 20) };
    std::mem::forget(r);
}
fn body_truncated(c: usize) {
    let mut e = ep();
    let nfds: usize = kani::any();
    kani::assume(nfds <= 2);
    // SAFETY: ghost state
    unsafe {
        g::put_hdr(0, 1, 5, 8);
        g::put64(12, kani::any());
        g::G.rx_len = c;
        g::G.rx_closed = true;
        g::G.rx_nfds = nfds;
        g::G.rx_fd_call = 1;
    }
    let r = e.recv_body::<VhostUserU64>();
    kani::cover!(r.is_err());
    assert!(r.is_err(), "C08: a truncated reply must be an error");
    if c > 0 {
        assert!(!matches!(&r, Err(Error::Disconnected)), "C08: 'disconnected' only at a message boundary");
    }
    // SAFETY: ghost state
    unsafe {
        assert!(!g::G.blocked, "C03/C08: no wait on a closed stream");
        assert!(!g::G.double_close && g::G.fd_state[0] != g::FD_OPEN && g::G.fd_state[1] != g::FD_OPEN, "C09: descriptors that arrived with a reply cut short by the end of the stream are closed");
    }
    std::mem::forget(r);
}
fn send_partial(a: usize) {
    let mut e = ep();
    let flags: u32 = kani::any();
    let val: u64 = kani::any();
    let hdr = VhostUserMsgHeader::<FrontendReq>::new(FrontendReq::SET_FEATURES, flags, 8);
    let body = VhostUserU64::new(val);
    let nfds: usize = kani::any();
    kani::assume(nfds <= 2);
    let fds = [70, 71];
    // SAFETY: ghost state
    unsafe { g::G.tx_accept = a };
    let r = e.send_message(&hdr, &body, if nfds == 0 { None } else { Some(&fds[..nfds]) });
    kani::cover!(r.is_ok() && nfds == 2);
    assert!(r.is_ok(), "C08: partial accepts are not an error");
    // SAFETY: ghost state
    unsafe {
        assert!(g::G.tx_len == 20, "C08: every byte exactly once");
        assert!(g::tx32(0) == 2 && g::tx32(4) == ((flags & 0xc) | 1) && g::tx32(8) == 8 && g::tx64(12) == val, "C08/C01: bytes in order");
        assert!(g::G.tx_first_nfds == nfds && !g::G.tx_late_fds, "C08: descriptors with the first byte only");
        assert!(g::G.tx_calls == (20 + a - 1) / a);
    }
    std::mem::forget(r);
}
fn send_retry(errno: i32, at: usize) {
    let mut e = ep();
    let val: u64 = kani::any();
    let hdr = VhostUserMsgHeader::<FrontendReq>::new(FrontendReq::SET_FEATURES, 0, 8);
    let body = VhostUserU64::new(val);
    let fds = [70];
    // SAFETY: ghost state
    unsafe {
        g::G.tx_accept = 13;
        g::G.tx_err_at_call = at;
        g::G.tx_errno = errno;
    }
    let r = e.send_message(&hdr, &body, Some(&fds[..]));
    kani::cover!(r.is_ok());
    assert!(r.is_ok(), "C08: transient socket errors are retried");
    // SAFETY: ghost state
    unsafe {
        assert!(g::G.tx_len == 20 && g::tx32(0) == 2 && g::tx64(12) == val, "C08: bytes once, in order");
        assert!(g::G.tx_first_nfds == 1 && !g::G.tx_late_fds, "C08: descriptors accompany the first byte, once");
        assert!(g::G.tx_calls == 2 && g::G.tx_attempts == 3);
    }
    std::mem::forget(r);
}
macro_rules! c08 {
    ($name:ident, $unwind:expr, $call:expr) => {
        #[kani::proof]
        #[kani::unwind($unwind)]
        #[kani::stub(vmm_sys_util::sock_ctrl_msg::raw_recvmsg, g::ghost_recvmsg)]
        #[kani::stub(vmm_sys_util::sock_ctrl_msg::raw_sendmsg, g::ghost_sendmsg)]
        #[kani::stub(libc::close, g::ghost_close)]
        #[kani::stub(<std::os::fd::OwnedFd as std::ops::Drop>::drop, g::ghost_ownedfd_drop)]
        #[kani::stub(std::alloc::handle_alloc_error, g::ghost_alloc_error)]
        fn $name() {
            $call
        }
    };
}
// ---- instantiations (generated once by hand-run script; edit freely)
// @harness props=C01,C08,C09 tier=quick reach=off bound="recv_header: 12 bytes delivered in segments not cut at all (the whole header in one receive); all flags/size words, 0..=2 descriptors on the first segment" stubs="vmm-sys-util raw_recvmsg/raw_sendmsg (ghost stream socket with delivery cuts / partial accepts), close, OwnedFd::drop"
c08!(c08_u_hdr_whole, 6, hdr_split(12, 12));
// @harness props=C01,C08,C09 tier=quick reach=off bound="recv_header: 12 bytes delivered in segments cut at 1 and 12; all flags/size words, 0..=2 descriptors on the first segment" stubs="vmm-sys-util raw_recvmsg/raw_sendmsg (ghost stream socket with delivery cuts / partial accepts), close, OwnedFd::drop"
c08!(c08_u_hdr_split_1_12, 6, hdr_split(1, 12));
// @harness props=C01,C08,C09 tier=quick reach=off bound="recv_header: 12 bytes delivered in segments cut at 4 and 8; all flags/size words, 0..=2 descriptors on the first segment" stubs="vmm-sys-util raw_recvmsg/raw_sendmsg (ghost stream socket with delivery cuts / partial accepts), close, OwnedFd::drop"
c08!(c08_u_hdr_split_4_8, 6, hdr_split(4, 8));
// @harness props=C01,C08,C09 tier=quick reach=off bound="recv_header: 12 bytes delivered in segments cut at 11 and 12; all flags/size words, 0..=2 descriptors on the first segment" stubs="vmm-sys-util raw_recvmsg/raw_sendmsg (ghost stream socket with delivery cuts / partial accepts), close, OwnedFd::drop"
c08!(c08_u_hdr_split_11_12, 6, hdr_split(11, 12));
// @harness props=C01,C08,C09 tier=thorough reach=off bound="recv_header: 12 bytes delivered in segments cut at 6 and 6; all flags/size words, 0..=2 descriptors on the first segment" stubs="vmm-sys-util raw_recvmsg/raw_sendmsg (ghost stream socket with delivery cuts / partial accepts), close, OwnedFd::drop"
c08!(c08_u_hdr_split_6_6, 6, hdr_split(6, 6));
// @harness props=C01,C08,C09 tier=thorough reach=off bound="recv_header: 12 bytes delivered in segments cut at 8 and 9; all flags/size words, 0..=2 descriptors on the first segment" stubs="vmm-sys-util raw_recvmsg/raw_sendmsg (ghost stream socket with delivery cuts / partial accepts), close, OwnedFd::drop"
c08!(c08_u_hdr_split_8_9, 6, hdr_split(8, 9));
// @harness props=C01,C08,C09 tier=thorough reach=off bound="recv_header: 12 bytes delivered in segments cut at 2 and 3; all flags/size words, 0..=2 descriptors on the first segment" stubs="vmm-sys-util raw_recvmsg/raw_sendmsg (ghost stream socket with delivery cuts / partial accepts), close, OwnedFd::drop"
c08!(c08_u_hdr_split_2_3, 6, hdr_split(2, 3));
// @harness props=C03,C06,C08,C09 tier=quick reach=off bound="recv_header (0..=2 descriptors on the first byte): stream ends after 0 bytes" stubs="vmm-sys-util raw_recvmsg/raw_sendmsg (ghost stream socket with delivery cuts / partial accepts), close, OwnedFd::drop"
c08!(c08_u_hdr_truncated_0, 6, hdr_truncated(0));
// @harness props=C03,C06,C08,C09 tier=quick reach=off bound="recv_header (0..=2 descriptors on the first byte): stream ends after 1 bytes" stubs="vmm-sys-util raw_recvmsg/raw_sendmsg (ghost stream socket with delivery cuts / partial accepts), close, OwnedFd::drop"
c08!(c08_u_hdr_truncated_1, 6, hdr_truncated(1));
// @harness props=C03,C06,C08,C09 tier=quick reach=off bound="recv_header (0..=2 descriptors on the first byte): stream ends after 11 bytes" stubs="vmm-sys-util raw_recvmsg/raw_sendmsg (ghost stream socket with delivery cuts / partial accepts), close, OwnedFd::drop"
c08!(c08_u_hdr_truncated_11, 6, hdr_truncated(11));
// @harness props=C03,C06,C08,C09 tier=thorough reach=off bound="recv_header (0..=2 descriptors on the first byte): stream ends after 6 bytes" stubs="vmm-sys-util raw_recvmsg/raw_sendmsg (ghost stream socket with delivery cuts / partial accepts), close, OwnedFd::drop"
c08!(c08_u_hdr_truncated_6, 6, hdr_truncated(6));
// @harness props=C08,C06,C01 tier=quick reach=off bound="recv_body<u64>: 20 bytes (header+body) cut at 12 and 20; all body values, 0..=2 descriptors" stubs="vmm-sys-util raw_recvmsg/raw_sendmsg (ghost stream socket with delivery cuts / partial accepts), close, OwnedFd::drop"
c08!(c08_u_body_split_12_20, 6, body_split(12, 20));
// @harness props=C08,C06,C01 tier=quick reach=off bound="recv_body<u64>: 20 bytes (header+body) cut at 5 and 13; all body values, 0..=2 descriptors" stubs="vmm-sys-util raw_recvmsg/raw_sendmsg (ghost stream socket with delivery cuts / partial accepts), close, OwnedFd::drop"
c08!(c08_u_body_split_5_13, 6, body_split(5, 13));
// @harness props=C08,C06,C01 tier=thorough reach=off bound="recv_body<u64>: 20 bytes (header+body) cut at 19 and 20; all body values, 0..=2 descriptors" stubs="vmm-sys-util raw_recvmsg/raw_sendmsg (ghost stream socket with delivery cuts / partial accepts), close, OwnedFd::drop"
c08!(c08_u_body_split_19_20, 6, body_split(19, 20));
// @harness props=C08,C06,C01 tier=quick reach=off bound="recv_body<u64>: 20 bytes (header+body) cut at 12 and 16; all body values, 0..=2 descriptors" stubs="vmm-sys-util raw_recvmsg/raw_sendmsg (ghost stream socket with delivery cuts / partial accepts), close, OwnedFd::drop"
c08!(c08_u_body_split_12_16, 6, body_split(12, 16));
// @harness props=C08,C06,C01 tier=thorough reach=off bound="recv_body<u64>: 20 bytes (header+body) cut at 1 and 2; all body values, 0..=2 descriptors" stubs="vmm-sys-util raw_recvmsg/raw_sendmsg (ghost stream socket with delivery cuts / partial accepts), close, OwnedFd::drop"
c08!(c08_u_body_split_1_2, 6, body_split(1, 2));
// @harness props=C03,C06,C08,C09 tier=quick reach=off bound="recv_body<u64> (0..=2 descriptors on the first byte): stream ends after 0 bytes" stubs="vmm-sys-util raw_recvmsg/raw_sendmsg (ghost stream socket with delivery cuts / partial accepts), close, OwnedFd::drop"
c08!(c08_u_body_truncated_0, 6, body_truncated(0));
// @harness props=C03,C06,C08,C09 tier=quick reach=off bound="recv_body<u64> (0..=2 descriptors on the first byte): stream ends after 12 bytes" stubs="vmm-sys-util raw_recvmsg/raw_sendmsg (ghost stream socket with delivery cuts / partial accepts), close, OwnedFd::drop"
c08!(c08_u_body_truncated_12, 6, body_truncated(12));
// @harness props=C03,C06,C08,C09 tier=quick reach=off bound="recv_body<u64> (0..=2 descriptors on the first byte): stream ends after 19 bytes" stubs="vmm-sys-util raw_recvmsg/raw_sendmsg (ghost stream socket with delivery cuts / partial accepts), close, OwnedFd::drop"
c08!(c08_u_body_truncated_19, 6, body_truncated(19));
// @harness props=C03,C06,C08,C09 tier=thorough reach=off bound="recv_body<u64> (0..=2 descriptors on the first byte): stream ends after 5 bytes" stubs="vmm-sys-util raw_recvmsg/raw_sendmsg (ghost stream socket with delivery cuts / partial accepts), close, OwnedFd::drop"
c08!(c08_u_body_truncated_5, 6, body_truncated(5));
// @harness props=C01,C02,C08 tier=quick reach=off bound="send_message(header+u64): socket accepts at most 7 bytes per call; all flag/body values, 0..=2 descriptors" stubs="vmm-sys-util raw_recvmsg/raw_sendmsg (ghost stream socket with delivery cuts / partial accepts), close, OwnedFd::drop"
c08!(c08_u_send_partial_7, 10, send_partial(7));
// @harness props=C01,C02,C08 tier=quick reach=off bound="send_message(header+u64): socket accepts at most 12 bytes per call; all flag/body values, 0..=2 descriptors" stubs="vmm-sys-util raw_recvmsg/raw_sendmsg (ghost stream socket with delivery cuts / partial accepts), close, OwnedFd::drop"
c08!(c08_u_send_partial_12, 10, send_partial(12));
// @harness props=C01,C02,C08 tier=quick reach=off bound="send_message(header+u64): socket accepts at most 19 bytes per call; all flag/body values, 0..=2 descriptors" stubs="vmm-sys-util raw_recvmsg/raw_sendmsg (ghost stream socket with delivery cuts / partial accepts), close, OwnedFd::drop"
c08!(c08_u_send_partial_19, 10, send_partial(19));
// @harness props=C01,C02,C08 tier=thorough reach=off bound="send_message(header+u64): socket accepts at most 3 bytes per call; all flag/body values, 0..=2 descriptors" stubs="vmm-sys-util raw_recvmsg/raw_sendmsg (ghost stream socket with delivery cuts / partial accepts), close, OwnedFd::drop"
c08!(c08_u_send_partial_3, 10, send_partial(3));
// @harness props=C01,C02,C08 tier=thorough reach=off bound="send_message(header+u64): socket accepts at most 1 bytes per call; all flag/body values, 0..=2 descriptors" stubs="vmm-sys-util raw_recvmsg/raw_sendmsg (ghost stream socket with delivery cuts / partial accepts), close, OwnedFd::drop"
c08!(c08_u_send_partial_1, 24, send_partial(1));
// @harness props=C01,C02,C08 tier=quick reach=off bound="send_message(header+u64): send call 1 fails once with EAGAIN, 13 bytes accepted per call" stubs="vmm-sys-util raw_recvmsg/raw_sendmsg (ghost stream socket with delivery cuts / partial accepts), close, OwnedFd::drop"
c08!(c08_u_send_retry_eagain_1, 4, send_retry(libc::EAGAIN, 1));
// @harness props=C01,C02,C08 tier=thorough reach=off bound="send_message(header+u64): send call 2 fails once with EAGAIN, 13 bytes accepted per call" stubs="vmm-sys-util raw_recvmsg/raw_sendmsg (ghost stream socket with delivery cuts / partial accepts), close, OwnedFd::drop"
c08!(c08_u_send_retry_eagain_2, 4, send_retry(libc::EAGAIN, 2));
// @harness props=C01,C02,C08 tier=thorough reach=off bound="send_message(header+u64): send call 1 fails once with EINTR, 13 bytes accepted per call" stubs="vmm-sys-util raw_recvmsg/raw_sendmsg (ghost stream socket with delivery cuts / partial accepts), close, OwnedFd::drop"
c08!(c08_u_send_retry_eintr_1, 4, send_retry(libc::EINTR, 1));
// @harness props=C01,C02,C08 tier=quick reach=off bound="send_message(header+u64): send call 2 fails once with EINTR, 13 bytes accepted per call" stubs="vmm-sys-util raw_recvmsg/raw_sendmsg (ghost stream socket with delivery cuts / partial accepts), close, OwnedFd::drop"
c08!(c08_u_send_retry_eintr_2, 4, send_retry(libc::EINTR, 2));
// @harness props=C01,C02,C08 tier=thorough reach=off bound="send_message(header+u64): send call 1 fails once with ENOBUFS, 13 bytes accepted per call" stubs="vmm-sys-util raw_recvmsg/raw_sendmsg (ghost stream socket with delivery cuts / partial accepts), close, OwnedFd::drop"
c08!(c08_u_send_retry_enobufs_1, 4, send_retry(libc::ENOBUFS, 1));
// @harness props=C01,C02,C08 tier=thorough reach=off bound="send_message(header+u64): send call 2 fails once with ENOBUFS, 13 bytes accepted per call" stubs="vmm-sys-util raw_recvmsg/raw_sendmsg (ghost stream socket with delivery cuts / partial accepts), close, OwnedFd::drop"
c08!(c08_u_send_retry_enobufs_2, 4, send_retry(libc::ENOBUFS, 2));
// @harness props=C01,C02,C08 tier=quick reach=off bound="recv_data(8): request body delivered in two segments cut at byte 1; all body values" stubs="vmm-sys-util raw_recvmsg/raw_sendmsg (ghost stream socket with delivery cuts / partial accepts), close, OwnedFd::drop"
c08!(c08_u_data_split_1, 5, data_split(1));
// @harness props=C01,C02,C08 tier=quick reach=off bound="recv_data(8): request body delivered in two segments cut at byte 4; all body values" stubs="vmm-sys-util raw_recvmsg/raw_sendmsg (ghost stream socket with delivery cuts / partial accepts), close, OwnedFd::drop"
c08!(c08_u_data_split_4, 5, data_split(4));
// @harness props=C01,C02,C08 tier=quick reach=off bound="recv_data(8): request body delivered in two segments cut at byte 7; all body values" stubs="vmm-sys-util raw_recvmsg/raw_sendmsg (ghost stream socket with delivery cuts / partial accepts), close, OwnedFd::drop"
c08!(c08_u_data_split_7, 5, data_split(7));
// @harness props=C01,C02,C08 tier=thorough reach=off bound="recv_data(8): request body delivered in two segments cut at byte 3; all body values" stubs="vmm-sys-util raw_recvmsg/raw_sendmsg (ghost stream socket with delivery cuts / partial accepts), close, OwnedFd::drop"
c08!(c08_u_data_split_3, 5, data_split(3));
// @harness props=C03,C06,C08 tier=quick reach=off bound="recv_data(8): stream ends after 0 body bytes" stubs="vmm-sys-util raw_recvmsg/raw_sendmsg (ghost stream socket with delivery cuts / partial accepts), close, OwnedFd::drop"
c08!(c08_u_data_truncated_0, 5, data_truncated(0));
// @harness props=C03,C06,C08 tier=quick reach=off bound="recv_data(8): stream ends after 5 body bytes" stubs="vmm-sys-util raw_recvmsg/raw_sendmsg (ghost stream socket with delivery cuts / partial accepts), close, OwnedFd::drop"
c08!(c08_u_data_truncated_5, 5, data_truncated(5));
// @harness props=C03,C06,C08 tier=thorough reach=off bound="recv_data(8): stream ends after 7 body bytes" stubs="vmm-sys-util raw_recvmsg/raw_sendmsg (ghost stream socket with delivery cuts / partial accepts), close, OwnedFd::drop"
c08!(c08_u_data_truncated_7, 5, data_truncated(7));
// @harness props=C09 tier=quick reach=off timeout=600 bound="recv_header: header with 33 descriptors attached (one more than the per-message limit)" stubs="vmm-sys-util raw_recvmsg (ghost: descriptors counted; MSG_CTRUNC -> ENOBUFS as vmm-sys-util reports it), close, OwnedFd::drop"
c08!(c09_u_hdr_33_fds, 40, hdr_many_fds(33));
// @harness props=C09 tier=quick reach=off timeout=600 bound="recv_header: header with 32 descriptors attached (the per-message limit)" stubs="vmm-sys-util raw_recvmsg (ghost: descriptors counted), close, OwnedFd::drop"
c08!(c09_u_hdr_32_fds, 40, hdr_many_fds(32));
// @harness props=C09 tier=thorough reach=off timeout=600 bound="recv_header: header with 64 descriptors attached" stubs="vmm-sys-util raw_recvmsg (ghost: descriptors counted), close, OwnedFd::drop"
c08!(c09_u_hdr_64_fds, 70, hdr_many_fds(64));
