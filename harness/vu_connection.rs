// Child module of vhost::vhost_user::connection.
use super::*;
use crate::vhost_user::verif::ghost as g;
use crate::vhost_user::verif::spec;

fn ep() -> std::mem::ManuallyDrop<Endpoint<VhostUserMsgHeader<FrontendReq>>> {
    // SAFETY: descriptor 5 is never used for real I/O (all socket calls are stubbed)
    std::mem::ManuallyDrop::new(Endpoint::from_stream(unsafe { UnixStream::from_raw_fd(5) }))
}

