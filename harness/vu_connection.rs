// harnesses for vu_connection
