// Child module of vhost::vhost_user::gpu_backend_req (the vhost-user-gpu proxy `GpuBackend`).
// NOT covered: the reply-bearing GPU operations (get_protocol_features, get_display_info, get_edid,
// update_dmabuf_scanout).  Their receive path turns every vhost_user::Error into
// io::Error::other(format!(..)) inside BackendInternal::recv_reply; the boxed custom error makes io::Error's
// bit-packed representation opaque to CBMC and the run exhausts memory (14 GB and 40 GB tried); the closure
// returned by io_err_convert_fn cannot be stubbed (opaque return type), io::Error::other cannot be named in
// kani::stub.  display_info / edid / cursor_update also exceed the ghost wire bounds (408 / 1056 / 16384 bytes).
// C01 (GPU channel encoding: header flags carry no version bits, only REPLY on replies),
// C06 (reply parsing), C10 (lock across request + reply).
use super::*;
use crate::vhost_user::verif::ghost as g;
use crate::vhost_user::verif::spec;
use crate::vhost_user::verif::spec::gpu;
use std::mem::ManuallyDrop;
use std::os::unix::io::FromRawFd;

const LENT_FD: RawFd = 70;
static mut NODE_PTR: (*const Mutex<BackendInternal>, u64) = (std::ptr::null(), 0x51c0_77aa_0005_c10c);
static mut LOCK_FREE_AT_SYSCALL: (bool, u64) = (false, 0x51c0_77aa_0006_c10c);
fn c10_probe() {
    // SAFETY: single-threaded harness
    unsafe {
        if !NODE_PTR.0.is_null() {
            if let Ok(guard) = (*NODE_PTR.0).try_lock() {
                LOCK_FREE_AT_SYSCALL.0 = true;
                drop(guard);
            }
        }
    }
}
unsafe fn gp_recvmsg(fd: RawFd, iovecs: &mut [libc::iovec], in_fds: &mut [RawFd]) -> vmm_sys_util::errno::Result<(usize, usize)> {
    c10_probe();
    g::note_recv();
    g::ghost_recvmsg(fd, iovecs, in_fds)
}
fn gp_sendmsg<D: vmm_sys_util::sock_ctrl_msg::IntoIovec>(fd: RawFd, out_data: &[D], out_fds: &[RawFd]) -> vmm_sys_util::errno::Result<usize> {
    c10_probe();
    // SAFETY: single-threaded harness
    unsafe { g::note_send() };
    g::ghost_sendmsg(fd, out_data, out_fds)
}
/// error paths of this proxy build their message with format!: formatting is not the subject
fn no_format(_args: std::fmt::Arguments<'_>) -> String {
    String::new()
}

unsafe fn tx_gpu_header(code: u32, size: usize) {
    assert!(g::tx32(0) == code, "C01: gpu request code");
    assert!(g::tx32(4) == 0, "C01: gpu request flags carry no version / NEED_REPLY bits");
    assert!(g::tx32(8) == size as u32 && g::G.tx_len == 12 + size, "C01: size = payload");
    assert!(!g::G.tx_late_fds);
}

/// `class`: reply header class for reply-bearing operations (0 conformant: same code, flags 0x4;
/// 1 foreign code; 2 REPLY bit missing; 3 undefined flag bit; 4 conformant header, stream ends before the body)
fn e_gpu(op: u32, class: usize) {
    // SAFETY: descriptor 5 is never used for real I/O
    let b = ManuallyDrop::new(GpuBackend::from_stream(unsafe { UnixStream::from_raw_fd(5) }));
    let w: [u32; 10] = kani::any();
    let rval: u64 = kani::any();
    let nfds: usize = kani::any();
    kani::assume(nfds <= 1);
    let rsize: usize = if op == gpu::GET_PROTOCOL_FEATURES { 8 } else { 0 };
    // SAFETY: ghost state
    unsafe {
        NODE_PTR.0 = Arc::as_ptr(&b.node);
        g::G.lent_lo = LENT_FD;
        g::G.lent_hi = LENT_FD + 1;
        let code = if class == 1 { op + 1 } else { op };
        let flags = match class { 2 => 0x0, 3 => 0x5, _ => 0x4 };
        g::put_hdr(0, code, flags, rsize as u32);
        g::put64(12, rval);
        // class 4: conformant reply header, then the peer closes the connection before the body arrives
        g::G.rx_len = if class == 4 { 12 } else { 12 + rsize };
        g::G.rx_closed = class == 4;
        g::G.rx_nfds = nfds;
    }
    let ev = ManuallyDrop::new(unsafe { std::fs::File::from_raw_fd(LENT_FD) });
    let with_fd: bool = kani::any();
    let mut wit = false;
    // SAFETY: ghost state
    unsafe {
        match op {
            gpu::GET_PROTOCOL_FEATURES => {
                let r = b.get_protocol_features();
                wit = if class == 0 { r.is_ok() } else { r.is_err() };
                tx_gpu_header(op, 0);
                assert!(!g::G.blocked);
                if let Ok(v) = &r {
                    assert!(class == 0 && nfds == 0, "C06: accepted bytes that are not the reply to this request");
                    assert!(v.value == rval, "C03: value returned = value replied");
                }
                if class == 0 && nfds == 0 {
                    assert!(r.is_ok(), "C03: conformant reply must be accepted");
                }
                std::mem::forget(r);
            }
            gpu::DMABUF_UPDATE => {
                let m = VhostUserGpuUpdate { scanout_id: w[0], x: w[1], y: w[2], width: w[3], height: w[4] };
                let r = b.update_dmabuf_scanout(&m);
                wit = if class == 0 { r.is_ok() } else { r.is_err() };
                tx_gpu_header(op, 20);
                assert!(g::tx32(12) == w[0] && g::tx32(16) == w[1] && g::tx32(20) == w[2] && g::tx32(24) == w[3] && g::tx32(28) == w[4], "C01: update body");
                assert!(!g::G.blocked);
                if r.is_ok() {
                    assert!(class == 0 && nfds == 0, "C06");
                }
                if class == 0 && nfds == 0 {
                    assert!(r.is_ok());
                }
                std::mem::forget(r);
            }
            gpu::SET_PROTOCOL_FEATURES => {
                let r = b.set_protocol_features(&VhostUserU64::new(rval));
                wit = r.is_ok();
                tx_gpu_header(op, 8);
                assert!(g::tx64(12) == rval && g::G.rx_calls == 0 && r.is_ok(), "C01: fire-and-forget u64");
                std::mem::forget(r);
            }
            gpu::SCANOUT => {
                let m = VhostUserGpuScanout { scanout_id: w[0], width: w[1], height: w[2] };
                let r = b.set_scanout(&m);
                wit = r.is_ok();
                tx_gpu_header(op, 12);
                assert!(g::tx32(12) == w[0] && g::tx32(16) == w[1] && g::tx32(20) == w[2] && g::G.rx_calls == 0 && r.is_ok());
                std::mem::forget(r);
            }
            gpu::CURSOR_POS | gpu::CURSOR_POS_HIDE => {
                let m = VhostUserGpuCursorPos { scanout_id: w[0], x: w[1], y: w[2] };
                let r = if op == gpu::CURSOR_POS { b.cursor_pos(&m) } else { b.cursor_pos_hide(&m) };
                wit = r.is_ok();
                tx_gpu_header(op, 12);
                assert!(g::tx32(12) == w[0] && g::tx32(16) == w[1] && g::tx32(20) == w[2] && g::G.rx_calls == 0 && r.is_ok());
                std::mem::forget(r);
            }
            gpu::DMABUF_SCANOUT | gpu::DMABUF_SCANOUT2 => {
                let m = VhostUserGpuDMABUFScanout {
                    scanout_id: w[0], x: w[1], y: w[2], width: w[3], height: w[4], fd_width: w[5], fd_height: w[6],
                    fd_stride: w[7], fd_flags: w[8], fd_drm_fourcc: w[9],
                };
                let fd = if with_fd { Some(&*ev) } else { None };
                let r = if op == gpu::DMABUF_SCANOUT {
                    b.set_dmabuf_scanout(&m, fd)
                } else {
                    b.set_dmabuf_scanout2(&VhostUserGpuDMABUFScanout2 { dmabuf_scanout: m, modifier: rval }, fd)
                };
                wit = r.is_ok() && with_fd;
                tx_gpu_header(op, if op == gpu::DMABUF_SCANOUT { 40 } else { 48 });
                assert!(g::tx32(12) == w[0] && g::tx32(16) == w[1] && g::tx32(20) == w[2] && g::tx32(24) == w[3] && g::tx32(28) == w[4]);
                assert!(g::tx32(32) == w[5] && g::tx32(36) == w[6] && g::tx32(40) == w[7] && g::tx32(44) == w[8] && g::tx32(48) == w[9], "C01: dmabuf scanout body");
                if op == gpu::DMABUF_SCANOUT2 {
                    assert!(g::tx64(52) == rval, "C01: modifier follows the scanout (packed)");
                }
                assert!(g::G.tx_first_nfds == with_fd as usize && (!with_fd || g::G.tx_first_fd0 == LENT_FD), "C01: descriptor iff given");
                assert!(g::G.rx_calls == 0 && r.is_ok());
                std::mem::forget(r);
            }
            gpu::UPDATE => {
                let m = VhostUserGpuUpdate { scanout_id: w[0], x: w[1], y: w[2], width: w[3], height: w[4] };
                let data: [u8; 8] = kani::any();
                let r = b.update_scanout(&m, &data[..]);
                wit = r.is_ok();
                tx_gpu_header(op, 28);
                assert!(g::tx32(12) == w[0] && g::tx32(28) == w[4] && g::tx64(32) == spec::rd64(&data, 0), "C01: update body then pixel payload");
                assert!(g::G.rx_calls == 0 && r.is_ok());
                std::mem::forget(r);
            }
            _ => {}
        }
        assert!(!g::G.lent_closed, "C09: lent descriptor closed");
        assert!(!LOCK_FREE_AT_SYSCALL.0, "C10: gpu proxy lock free during a socket call of the transaction");
        assert!(!g::G.lock_retaken, "C10: the gpu proxy lock was released and taken again between a request and the reading of its reply");
        assert!((*NODE_PTR.0).try_lock().is_ok(), "C10: gpu proxy lock released on return");
    }
    kani::cover!(wit, "witness");
}

macro_rules! e_gp {
    ($name:ident, $op:expr, $class:expr) => {
        #[kani::proof]
        #[kani::unwind(5)]
        #[kani::stub(vmm_sys_util::sock_ctrl_msg::raw_recvmsg, gp_recvmsg)]
        #[kani::stub(vmm_sys_util::sock_ctrl_msg::raw_sendmsg, gp_sendmsg)]
        #[kani::stub(std::sync::Mutex::lock, g::ghost_mutex_lock)]
        #[kani::stub(libc::close, g::ghost_close)]
        #[kani::stub(<std::os::fd::OwnedFd as std::ops::Drop>::drop, g::ghost_ownedfd_drop)]
        #[kani::stub(std::alloc::handle_alloc_error, g::ghost_alloc_error)]
        #[kani::stub(std::fmt::format, no_format)]
        fn $name() {
            e_gpu($op, $class)
        }
    };
}

// @harness props=C01,C10 tier=thorough reach=off timeout=500 bound="GpuBackend::set_protocol_features: all u64" stubs="raw_recvmsg/raw_sendmsg (+lock probe), close, OwnedFd::drop, handle_alloc_error, fmt::format"
e_gp!(e_gp_set_protocol_features, 2, 0);
// @harness props=C01,C10 tier=quick reach=off timeout=500 bound="GpuBackend::set_scanout: all fields" stubs="raw_recvmsg/raw_sendmsg (+lock probe), close, OwnedFd::drop, handle_alloc_error, fmt::format"
e_gp!(e_gp_scanout, 7, 0);
// @harness props=C01,C10 tier=thorough reach=off timeout=500 bound="GpuBackend::cursor_pos: all fields" stubs="raw_recvmsg/raw_sendmsg (+lock probe), close, OwnedFd::drop, handle_alloc_error, fmt::format"
e_gp!(e_gp_cursor_pos, 4, 0);
// @harness props=C01,C10 tier=thorough reach=off timeout=500 bound="GpuBackend::cursor_pos_hide: all fields" stubs="raw_recvmsg/raw_sendmsg (+lock probe), close, OwnedFd::drop, handle_alloc_error, fmt::format"
e_gp!(e_gp_cursor_pos_hide, 5, 0);
// @harness props=C01,C09,C10 tier=quick reach=off timeout=500 bound="GpuBackend::set_dmabuf_scanout: all ten u32 fields, with/without descriptor" stubs="raw_recvmsg/raw_sendmsg (+lock probe), close, OwnedFd::drop, handle_alloc_error, fmt::format"
e_gp!(e_gp_dmabuf_scanout, 9, 0);
// @harness props=C01,C09,C10 tier=thorough reach=off timeout=500 bound="GpuBackend::set_dmabuf_scanout2: all fields + modifier, with/without descriptor" stubs="raw_recvmsg/raw_sendmsg (+lock probe), close, OwnedFd::drop, handle_alloc_error, fmt::format"
e_gp!(e_gp_dmabuf_scanout2, 12, 0);
// @harness props=C01,C10 tier=thorough reach=off timeout=500 bound="GpuBackend::update_scanout: all fields, 8 payload bytes" stubs="raw_recvmsg/raw_sendmsg (+lock probe), close, OwnedFd::drop, handle_alloc_error, fmt::format"
e_gp!(e_gp_update, 8, 0);
// @harness props=C01,C03,C06,C10 tier=quick reach=off timeout=900 mem=24 bound="GpuBackend::get_protocol_features: conformant reply, value and 0..=1 descriptors symbolic" stubs="raw_recvmsg/raw_sendmsg (+lock probe), Mutex::lock (acquisition counter, self-deadlock detector), close, OwnedFd::drop, handle_alloc_error, fmt::format"
e_gp!(e_gp_get_protocol_features, 1, 0);
// @harness props=C06,C10 tier=quick reach=off timeout=900 mem=24 bound="GpuBackend::get_protocol_features answered with another request's code, value and 0..=1 descriptors symbolic" stubs="raw_recvmsg/raw_sendmsg (+lock probe), Mutex::lock (acquisition counter, self-deadlock detector), close, OwnedFd::drop, handle_alloc_error, fmt::format"
e_gp!(e_gp_get_protocol_features_foreign, 1, 1);
// @harness props=C06,C10,C08,C03 tier=quick reach=off timeout=900 mem=24 bound="GpuBackend::get_protocol_features answered with a conformant reply header after which the peer closes the connection (no body): must be an error, never a default value; 0..=1 descriptors" stubs="raw_recvmsg/raw_sendmsg (+lock probe), Mutex::lock (acquisition counter, self-deadlock detector), close, OwnedFd::drop, handle_alloc_error, fmt::format"
e_gp!(e_gp_get_protocol_features_cut_by_eof, 1, 4);
// @harness props=C06,C10 tier=thorough reach=off timeout=900 mem=24 bound="GpuBackend::get_protocol_features answered without the REPLY flag" stubs="raw_recvmsg/raw_sendmsg (+lock probe), Mutex::lock (acquisition counter, self-deadlock detector), close, OwnedFd::drop, handle_alloc_error, fmt::format"
e_gp!(e_gp_get_protocol_features_noreply, 1, 2);
// @harness props=C06,C10 tier=thorough reach=off timeout=900 mem=24 bound="GpuBackend::get_protocol_features answered with an undefined flag bit" stubs="raw_recvmsg/raw_sendmsg (+lock probe), Mutex::lock (acquisition counter, self-deadlock detector), close, OwnedFd::drop, handle_alloc_error, fmt::format"
e_gp!(e_gp_get_protocol_features_badflag, 1, 3);
// @harness props=C01,C06,C10 tier=quick reach=off timeout=900 mem=24 bound="GpuBackend::update_dmabuf_scanout (empty ack reply): all five u32 fields, 0..=1 descriptors on the reply" stubs="raw_recvmsg/raw_sendmsg (+lock probe), Mutex::lock (acquisition counter, self-deadlock detector), close, OwnedFd::drop, handle_alloc_error, fmt::format"
e_gp!(e_gp_dmabuf_update, 10, 0);
// @harness props=C06,C10 tier=quick reach=off timeout=900 mem=24 bound="GpuBackend::update_dmabuf_scanout answered with another request's code" stubs="raw_recvmsg/raw_sendmsg (+lock probe), Mutex::lock (acquisition counter, self-deadlock detector), close, OwnedFd::drop, handle_alloc_error, fmt::format"
e_gp!(e_gp_dmabuf_update_foreign, 10, 1);
