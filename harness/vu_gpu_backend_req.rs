// harnesses for vu_gpu_backend_req
