// harnesses for vu_frontend_req_handler
