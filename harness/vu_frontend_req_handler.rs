// Child module of vhost::vhost_user::frontend_req_handler (the frontend's server for backend-initiated
// requests).  C18 (server half), C06 (server fed arbitrary bodies/descriptors), C09, C01 (ack encoding).
use super::*;
use crate::vhost_user::verif::ghost as g;
use crate::vhost_user::verif::spec;
use crate::vhost_user::verif::spec::be;
use std::mem::ManuallyDrop;
use std::os::unix::io::FromRawFd;

pub(crate) struct FRec;
pub(crate) struct FRecData {
    pub calls: u32,
    pub op: u32,
    pub a: [u64; 5],
    pub fd: RawFd,
    // script: 0 => Ok(ret), 1 => Err(errno), 2 => Err(without errno)
    pub mode: u8,
    pub ret: u64,
    pub errno: i32,
    pub fd_open_at_call: bool,
    pub marker: u64,
}
pub(crate) static mut FR: FRecData = FRecData { calls: 0, op: 0, a: [0; 5], fd: -1, fd_open_at_call: false, mode: 0, ret: 0, errno: 0, marker: 0x0f0e_0d0c_0b0a_0908 };
#[allow(static_mut_refs)]
fn fr() -> &'static mut FRecData {
    // SAFETY: single-threaded harness
    unsafe { &mut FR }
}
impl FRec {
    fn out(&mut self, op: u32) -> HandlerResult<u64> {
        fr().calls += 1;
        fr().op = op;
        match fr().mode {
            0 => Ok(fr().ret),
            1 => Err(std::io::Error::from_raw_os_error(fr().errno)),
            _ => Err(std::io::Error::from(std::io::ErrorKind::Other)),
        }
    }
    fn uuid(&mut self, u: &VhostUserSharedMsg) {
        let b = u.uuid.as_bytes();
        fr().a[0] = spec::rd64(b, 0);
        fr().a[1] = spec::rd64(b, 8);
    }
    /// records the descriptor the handler is given and whether it is (still) open while the handler runs
    fn fd(&mut self, fd: RawFd) {
        fr().fd = fd;
        // SAFETY: reading ghost state
        fr().fd_open_at_call = unsafe { fd >= g::FD_BASE && fd < g::FD_BASE + 2 && g::G.fd_state[(fd - g::FD_BASE) as usize] == g::FD_OPEN };
    }
    fn mmap(&mut self, m: &VhostUserMMap) {
        let (a, b, c, d) = (m.fd_offset, m.shm_offset, m.len, m.flags);
        fr().a = [m.shmid as u64, a, b, c, d];
    }
}
impl VhostUserFrontendReqHandlerMut for FRec {
    fn handle_config_change(&mut self) -> HandlerResult<u64> { self.out(be::CONFIG_CHANGE_MSG) }
    fn shared_object_add(&mut self, uuid: &VhostUserSharedMsg) -> HandlerResult<u64> { self.uuid(uuid); self.out(be::SHARED_OBJECT_ADD) }
    fn shared_object_remove(&mut self, uuid: &VhostUserSharedMsg) -> HandlerResult<u64> { self.uuid(uuid); self.out(be::SHARED_OBJECT_REMOVE) }
    fn shared_object_lookup(&mut self, uuid: &VhostUserSharedMsg, fd: &dyn AsRawFd) -> HandlerResult<u64> { self.uuid(uuid); self.fd(fd.as_raw_fd()); self.out(be::SHARED_OBJECT_LOOKUP) }
    fn shmem_map(&mut self, req: &VhostUserMMap, fd: &dyn AsRawFd) -> HandlerResult<u64> { self.mmap(req); self.fd(fd.as_raw_fd()); self.out(be::SHMEM_MAP) }
    fn shmem_unmap(&mut self, req: &VhostUserMMap) -> HandlerResult<u64> { self.mmap(req); self.out(be::SHMEM_UNMAP) }
}

fn e_freq(code: u32, flags: u32, size_delta: i32) {
    let reply_ack: bool = kani::any();
    let mut h = ManuallyDrop::new(FrontendReqHandler {
        // SAFETY: descriptors 5/6 are never used for real I/O
        sub_sock: Endpoint::<VhostUserMsgHeader<BackendReq>>::from_stream(unsafe { UnixStream::from_raw_fd(5) }),
        tx_sock: unsafe { UnixStream::from_raw_fd(6) },
        reply_ack_negotiated: reply_ack,
        backend: Arc::new(Mutex::new(FRec)),
        error: None,
    });
    let body: [u8; 40] = kani::any();
    let nfds: usize = kani::any();
    kani::assume(nfds <= 2);
    let natural: usize = match code {
        be::SHARED_OBJECT_ADD | be::SHARED_OBJECT_REMOVE | be::SHARED_OBJECT_LOOKUP => 16,
        be::SHMEM_MAP | be::SHMEM_UNMAP => 40,
        _ => 0,
    };
    let size = (natural as i32 + size_delta) as usize;
    fr().mode = kani::any();
    kani::assume(fr().mode <= 2);
    fr().ret = kani::any();
    fr().errno = kani::any();
    kani::assume(fr().errno >= 1 && fr().errno <= 4095);
    let (mode, ret, errno) = (fr().mode, fr().ret, fr().errno);
    // SAFETY: ghost state
    unsafe {
        g::put_hdr(0, code, flags, size as u32);
        g::put64(12, spec::rd64(&body, 0));
        g::put64(20, spec::rd64(&body, 8));
        g::put64(28, spec::rd64(&body, 16));
        g::put64(36, spec::rd64(&body, 24));
        g::put64(44, spec::rd64(&body, 32));
        g::G.rx_len = 12 + size;
        g::G.rx_closed = false;
        g::G.rx_nfds = nfds;
        g::G.rx_fd_call = 1;
    }
    let res = h.handle_request();
    let ok = res.is_ok();
    let okval = if let Ok(v) = &res { *v } else { 0 };
    std::mem::forget(res);

    let served = matches!(code, be::CONFIG_CHANGE_MSG | be::SHARED_OBJECT_ADD | be::SHARED_OBJECT_REMOVE | be::SHARED_OBJECT_LOOKUP | be::SHMEM_MAP | be::SHMEM_UNMAP);
    let need_reply = flags & spec::F_NEED_REPLY != 0;
    let hdr_ok = flags & spec::F_REPLY == 0 && flags & 3 == 1 && size_delta == 0;
    let body_ok = match code {
        be::SHARED_OBJECT_ADD | be::SHARED_OBJECT_REMOVE | be::SHARED_OBJECT_LOOKUP => spec::valid_shared(&body),
        be::SHMEM_MAP | be::SHMEM_UNMAP => spec::valid_mmap(&body),
        _ => true,
    };
    let want_fds = if matches!(code, be::SHARED_OBJECT_LOOKUP | be::SHMEM_MAP) { 1 } else { 0 };
    let wellformed = served && hdr_ok && body_ok && nfds == want_fds;
    let r = fr();
    kani::cover!(if served && hdr_ok { r.calls == 1 && ok } else { !ok && r.calls == 0 }, "witness: request reaches the application handler / is rejected");
    // C06/C18: handler invoked exactly for well-formed requests carrying exactly the prescribed descriptors
    assert!(r.calls == wellformed as u32, "C06/C18: application handler invoked exactly once for well-formed requests only");
    if r.calls == 1 {
        assert!(r.op == code, "C18: wrong handler operation");
        match code {
            be::SHARED_OBJECT_ADD | be::SHARED_OBJECT_REMOVE | be::SHARED_OBJECT_LOOKUP => {
                assert!(r.a[0] == spec::rd64(&body, 0) && r.a[1] == spec::rd64(&body, 8), "C18: uuid reaches the handler unchanged")
            }
            be::SHMEM_MAP | be::SHMEM_UNMAP => {
                assert!(r.a[0] == body[0] as u64 && r.a[1] == spec::rd64(&body, 8) && r.a[2] == spec::rd64(&body, 16)
                    && r.a[3] == spec::rd64(&body, 24) && r.a[4] == spec::rd64(&body, 32), "C18: mapping descriptor reaches the handler unchanged")
            }
            _ => {}
        }
        if want_fds == 1 {
            assert!(r.fd == g::FD_BASE, "C18: the handler is lent the received descriptor");
        }
    }
    // SAFETY: ghost state
    unsafe {
        assert!(!g::G.blocked, "C04-like: never read beyond the declared size");
        if wellformed {
            assert!(g::G.rx_pos == 12 + size);
        }
        // acknowledgement
        let exp_val: u64 = match mode {
            0 => ret,
            1 => (-(errno as i64)) as u64,
            _ => (-(22i64)) as u64, // -EINVAL
        };
        if r.calls == 1 {
            if code == be::SHARED_OBJECT_LOOKUP || code == be::SHMEM_MAP {
                assert!(r.fd == g::FD_BASE && r.fd_open_at_call, "C18: the handler is given the received descriptor, open for the duration of the call");
            }
            if reply_ack && need_reply {
                assert!(g::G.tx_calls == 1 && g::G.tx_len == 20, "C18: exactly one acknowledgement");
                assert!(g::tx32(0) == code && g::tx32(4) == (spec::F_VERSION_1 | spec::F_REPLY) && g::tx32(8) == 8, "C01: ack header");
                assert!(g::tx64(12) == exp_val, "C18: ack carries the handler's value, resp. the negated errno");
                assert!(g::G.tx_first_nfds == 0);
            } else {
                assert!(g::G.tx_len == 0, "C18: without REPLY_ACK (or NEED_REPLY) nothing is written");
            }
            assert!(ok == (mode == 0) && (!ok || okval == ret), "C18: handler result is returned to the serving loop");
        } else {
            assert!(!ok, "C06: malformed request must be reported as an error");
            // property is silent on whether a malformed request is nack-ed; never a zero ack, at most one
            assert!(g::G.tx_len == 0 || (g::G.tx_calls == 1 && g::G.tx_len == 20 && g::tx64(12) != 0 && reply_ack && need_reply));
        }
        // C09: descriptors are lent for the call and closed afterwards, exactly once
        assert!(!g::G.double_close, "C09: double close");
        let mut k = 0;
        while k < 2 {
            if g::G.fd_state[k] != g::FD_FREE {
                assert!(g::G.fd_state[k] == g::FD_CLOSED, "C09: descriptor of a backend request neither closed after the call");
            }
            k += 1;
        }
    }
}

macro_rules! e_fr {
    ($name:ident, $code:expr, $flags:expr, $delta:expr) => {
        #[kani::proof]
        #[kani::unwind(5)]
        #[kani::stub(vmm_sys_util::sock_ctrl_msg::raw_recvmsg, g::ghost_recvmsg)]
        #[kani::stub(vmm_sys_util::sock_ctrl_msg::raw_sendmsg, g::ghost_sendmsg)]
        #[kani::stub(libc::close, g::ghost_close)]
        #[kani::stub(<std::os::fd::OwnedFd as std::ops::Drop>::drop, g::ghost_ownedfd_drop)]
        #[kani::stub(std::alloc::handle_alloc_error, g::ghost_alloc_error)]
        fn $name() {
            e_freq($code, $flags, $delta)
        }
    };
}

// @harness props=C18,C06,C09,C01 tier=quick reach=off timeout=500 bound="FrontendReqHandler: SHARED_OBJECT_ADD flags 0x9; uuid bytes, 0..=2 descriptors, reply-ack flag, handler outcome (value / errno 1..=4095 / error without errno) symbolic" stubs="raw_recvmsg/raw_sendmsg, close, OwnedFd::drop, handle_alloc_error"
e_fr!(e_fr_shared_object_add_nr, 6, 0x9, 0);
// @harness props=C18,C06,C09 tier=thorough reach=off timeout=500 bound="FrontendReqHandler: SHARED_OBJECT_REMOVE flags 0x9" stubs="raw_recvmsg/raw_sendmsg, close, OwnedFd::drop, handle_alloc_error"
e_fr!(e_fr_shared_object_remove_nr, 7, 0x9, 0);
// @harness props=C18,C06,C09,C01 tier=quick reach=off timeout=500 bound="FrontendReqHandler: SHARED_OBJECT_LOOKUP flags 0x9 (one descriptor prescribed)" stubs="raw_recvmsg/raw_sendmsg, close, OwnedFd::drop, handle_alloc_error"
e_fr!(e_fr_shared_object_lookup_nr, 8, 0x9, 0);
// @harness props=C18,C06,C09,C01 tier=quick reach=off timeout=500 bound="FrontendReqHandler: SHMEM_MAP flags 0x9 (one descriptor prescribed), all 40 body bytes" stubs="raw_recvmsg/raw_sendmsg, close, OwnedFd::drop, handle_alloc_error"
e_fr!(e_fr_shmem_map_nr, 9, 0x9, 0);
// @harness props=C18,C06,C09 tier=thorough reach=off timeout=500 bound="FrontendReqHandler: SHMEM_UNMAP flags 0x9" stubs="raw_recvmsg/raw_sendmsg, close, OwnedFd::drop, handle_alloc_error"
e_fr!(e_fr_shmem_unmap_nr, 10, 0x9, 0);
// @harness props=C18,C06 tier=thorough reach=off timeout=500 bound="FrontendReqHandler: CONFIG_CHANGE flags 0x9" stubs="raw_recvmsg/raw_sendmsg, close, OwnedFd::drop, handle_alloc_error"
e_fr!(e_fr_config_change_nr, 2, 0x9, 0);
// @harness props=C18,C06 tier=quick reach=off timeout=500 bound="FrontendReqHandler: SHMEM_MAP flags 0x1 (no NEED_REPLY): nothing may be written" stubs="raw_recvmsg/raw_sendmsg, close, OwnedFd::drop, handle_alloc_error"
e_fr!(e_fr_shmem_map_plain, 9, 0x1, 0);
// @harness props=C06,C09 tier=quick reach=off timeout=500 bound="FrontendReqHandler: SHARED_OBJECT_LOOKUP with the REPLY bit set" stubs="raw_recvmsg/raw_sendmsg, close, OwnedFd::drop, handle_alloc_error"
e_fr!(e_fr_lookup_replybit, 8, 0xd, 0);
// @harness props=C06,C09 tier=thorough reach=off timeout=500 bound="FrontendReqHandler: SHMEM_MAP one byte short" stubs="raw_recvmsg/raw_sendmsg, close, OwnedFd::drop, handle_alloc_error"
e_fr!(e_fr_map_short, 9, 0x9, -1);
// @harness props=C06,C09 tier=thorough reach=off timeout=500 bound="FrontendReqHandler: SHARED_OBJECT_ADD one byte long" stubs="raw_recvmsg/raw_sendmsg, close, OwnedFd::drop, handle_alloc_error"
e_fr!(e_fr_add_long, 6, 0x9, 1);
// @harness props=C06,C09 tier=quick reach=off timeout=500 bound="FrontendReqHandler: request code 1 (IOTLB_MSG, not served): error, no handler call" stubs="raw_recvmsg/raw_sendmsg, close, OwnedFd::drop, handle_alloc_error"
e_fr!(e_fr_unserved_iotlb, 1, 0x9, 0);
// @harness props=C06,C09 tier=thorough reach=off timeout=500 bound="FrontendReqHandler: request code 4 (VRING_CALL, not served)" stubs="raw_recvmsg/raw_sendmsg, close, OwnedFd::drop, handle_alloc_error"
e_fr!(e_fr_unserved_vring_call, 4, 0x9, 0);
