// Child module of vhost::vhost_user::frontend.
//
// Entry level: every public operation of `Frontend` (the Arc<Mutex<..>> handle an application uses)
// run over the ghost kernel with symbolic arguments, symbolic negotiation words and a symbolic
// peer reply.  One run of `e_frontend` asserts for that operation:
//   C01  bytes written = spec encoding of (operation, arguments, flags); descriptors = the caller's,
//        attached to the first send only
//   C02  (frontend half) locally rejected calls put nothing on the wire
//   C07  gated operations write nothing unless the gating feature is set in the cached words
//   C03  (frontend half) a conformant reply is returned value-for-value; failure replies give Err;
//        the call never waits for bytes a conformant peer does not send (BLOCKED)
//   C06  anything that is not a reply to this very request gives Err, never a fabricated value
use super::*;
use crate::vhost_user::verif::ghost as g;
use crate::vhost_user::verif::spec;
use crate::vhost_user::verif::spec::{fe, pf};
use std::mem::ManuallyDrop;
use std::os::unix::io::FromRawFd;

// ---- C10: the endpoint lock must be held at every socket call of a transaction --------------------
// Every path to the shared socket goes through the handle's Mutex, so a second caller can interleave
// with a transaction only at a socket syscall made while the lock is free.  The stubs below are the
// syscalls; they record if the lock could be taken at that moment.
static mut NODE_PTR: (*const Mutex<FrontendInternal>, u64) = (std::ptr::null(), 0x51c0_77aa_0001_c10c);
static mut LOCK_FREE_AT_SYSCALL: (bool, u64) = (false, 0x51c0_77aa_0002_c10c);
fn c10_probe() {
    // SAFETY: single-threaded harness; the pointer is the live Arc payload of the handle under test
    unsafe {
        if !NODE_PTR.0.is_null() {
            if let Ok(guard) = (*NODE_PTR.0).try_lock() {
                LOCK_FREE_AT_SYSCALL.0 = true;
                drop(guard);
            }
        }
    }
}
unsafe fn fe_recvmsg(fd: RawFd, iovecs: &mut [libc::iovec], in_fds: &mut [RawFd]) -> vmm_sys_util::errno::Result<(usize, usize)> {
    c10_probe();
    g::note_recv();
    g::ghost_recvmsg(fd, iovecs, in_fds)
}
fn fe_sendmsg<D: vmm_sys_util::sock_ctrl_msg::IntoIovec>(fd: RawFd, out_data: &[D], out_fds: &[RawFd]) -> vmm_sys_util::errno::Result<usize> {
    c10_probe();
    // SAFETY: single-threaded harness
    unsafe { g::note_send() };
    g::ghost_sendmsg(fd, out_data, out_fds)
}
unsafe fn c10_after_call() {
    assert!(!LOCK_FREE_AT_SYSCALL.0, "C10: the endpoint lock was free during a socket call of the transaction");
    assert!(!g::G.lock_retaken, "C10: the endpoint lock was released and taken again between a request and the reading of its reply");
    if !NODE_PTR.0.is_null() {
        let free = (*NODE_PTR.0).try_lock().is_ok();
        assert!(free, "C10: the endpoint lock must be released when the call returns");
    }
}

const LENT_FD: RawFd = 70; // descriptor the caller lends for transmission
const LENT_FD2: RawFd = 71;

struct St {
    v: u64,
    av: u64,
    p: u64,
    ap: u64,
    maxq: u64,
    need_reply: bool,
}

fn mk_frontend() -> (ManuallyDrop<Frontend>, St) {
    let st = St { v: kani::any(), av: kani::any(), p: kani::any(), ap: kani::any(), maxq: kani::any(), need_reply: kani::any() };
    // SAFETY: descriptor 5 is never used for real I/O (all socket calls are stubbed)
    let ep = Endpoint::<VhostUserMsgHeader<FrontendReq>>::from_stream(unsafe { UnixStream::from_raw_fd(5) });
    let f = ManuallyDrop::new(Frontend::new(ep, st.maxq));
    {
        let mut n = f.node();
        n.virtio_features = st.v;
        n.acked_virtio_features = st.av;
        n.protocol_features = st.p;
        n.acked_protocol_features = st.ap;
        n.hdr_flags = if st.need_reply { VhostUserHeaderFlag::NEED_REPLY } else { VhostUserHeaderFlag::empty() };
    }
    // SAFETY: single-threaded harness
    unsafe { NODE_PTR.0 = Arc::as_ptr(&f.node) };
    // SAFETY: ghost bookkeeping
    unsafe {
        g::G.lent_lo = LENT_FD;
        g::G.lent_hi = LENT_FD2 + 1;
    }
    (f, st)
}

/// peer reply: header (class-symbolic control words) + up to 40 symbolic body bytes + 0..=2 descriptors
struct Reply {
    code: u32,
    flags: u32,
    size: u32,
    body: [u8; 40],
    nfds: usize,
    /// the stream ended before the body was complete: whatever the header says, this is not a reply
    cut: bool,
}
/// The reply's control words (request code, flags, size) are concrete per harness, selected by the
/// reply class below; body bytes and descriptor count stay symbolic.  Symbolic control words make
/// `get_code()`/`is_valid()` results symbolic, and because the endpoint state behind the public handle
/// sits in an Arc (moved there by memcpy, which CBMC does not constant-propagate) every later drop then
/// explores the io::Error drop glue (measured: 0.7M -> 2.7M steps, 30 s -> 170 s).  Arbitrary control words
/// are covered at unit level (c06_u_*), where the endpoint is built on the stack.
/// class 0: conformant (same code, version 1 | REPLY, exact size); 1: other request code;
/// 2: REPLY flag missing; 3: version 2; 4: reserved flag bit set; 5: size one larger;
/// 6: conformant header, then the peer closes the connection before any body byte arrives
static mut REPLY_CLASS: (usize, u64) = (0, 0x7733_1199_5522_aa01);
fn script_reply(req_code: u32, natural: usize, alive_after: bool) -> Reply {
    // SAFETY: single-threaded harness
    let class = unsafe { REPLY_CLASS.0 };
    let code = if class == 1 { req_code + 1 } else { req_code };
    let flags: u32 = match class {
        2 => 0x1,
        3 => 0x6,
        4 => 0x15,
        _ => 0x5,
    };
    let size = if class == 5 { natural as u32 + 1 } else { natural as u32 };
    let body: [u8; 40] = kani::any();
    let nfds: usize = kani::any();
    kani::assume(nfds <= 2);
    // SAFETY: ghost state
    unsafe {
        g::put_hdr(0, code, flags, size);
        g::put64(12, spec::rd64(&body, 0));
        g::put64(20, spec::rd64(&body, 8));
        g::put64(28, spec::rd64(&body, 16));
        g::put64(36, spec::rd64(&body, 24));
        g::put64(44, spec::rd64(&body, 32));
        g::G.rx_len = if class == 6 { 12 } else { 12 + natural };
        g::G.rx_closed = !alive_after || class == 6;
        g::G.rx_nfds = nfds;
        g::G.rx_fd_call = 1;
    }
    Reply { code, flags, size, body, nfds, cut: class == 6 && natural > 0 }
}
impl Reply {
    /// is this a reply to the request `req_code` at header level (C06: REPLY flag, same code, valid header)
    fn hdr_matches(&self, req_code: u32) -> bool {
        !self.cut && self.code == req_code && self.flags & spec::F_REPLY != 0
            && spec::valid_header(spec::frontend_code_known(self.code), self.flags, self.size)
    }
    /// fully conformant header as a spec backend would write it
    fn hdr_conformant(&self, req_code: u32, natural: usize) -> bool {
        !self.cut && self.code == req_code && self.flags == (spec::F_VERSION_1 | spec::F_REPLY) && self.size as usize == natural
    }
}

unsafe fn tx_is_header(code: u32, need_reply: bool, size: usize) {
    assert!(g::tx32(0) == code, "C01: request code on the wire");
    let fl = spec::F_VERSION_1 | if need_reply { spec::F_NEED_REPLY } else { 0 };
    assert!(g::tx32(4) == fl, "C01: flags = version 1 (+NEED_REPLY when requested)");
    assert!(g::tx32(8) == size as u32, "C01: size field = payload length");
    assert!(g::G.tx_len == 12 + size, "C01: exactly header + payload bytes are written");
    assert!(!g::G.tx_late_fds, "C01: descriptors only with the first byte");
}

/// the acknowledgement wait shared by all set-operations
/// returns (expect_wait, reply)
fn script_ack(code: u32, st: &St) -> (bool, Reply) {
    let waits = st.need_reply && st.ap & pf::REPLY_ACK != 0;
    (waits, script_reply(code, 8, true))
}

unsafe fn check_ack_outcome(code: u32, waits: bool, ok: bool, rep: &Reply) {
    assert!(!g::G.blocked, "C03: must not wait for bytes the peer never sends");
    if !waits {
        assert!(g::G.rx_calls == 0, "C18/C03: no acknowledgement is awaited unless negotiated and requested");
        assert!(ok, "C03: fire-and-forget operation succeeds once written");
    } else {
        let val = spec::rd64(&rep.body, 0);
        if ok {
            assert!(rep.hdr_matches(code), "C06: accepted an ack that is not a reply to this request");
            assert!(rep.nfds == 0, "C06: ack with descriptors accepted");
            assert!(val == 0, "C03: non-zero status reported as success");
        }
        if rep.hdr_conformant(code, 8) && rep.nfds == 0 {
            assert!(ok == (val == 0), "C03: ack value 0 <=> success");
        }
    }
}

/// `op` selects the frontend operation (concrete per harness); everything else is symbolic
fn e_frontend(op: u32, variant: usize) {
    // SAFETY: single-threaded harness
    unsafe { REPLY_CLASS.0 = variant >> 8 };
    let variant = variant & 0xff;
    let (f, st) = mk_frontend();
    let mut wit = false; // the single reachability witness of this harness (set by the arm that runs)
    let mut fm = ManuallyDrop::new((*f).clone());
    let qi: usize = kani::any();
    let q_ok = (qi as u64) < st.maxq;
    let gate = |bit: u64| st.ap & bit != 0;
    // SAFETY (whole function): ghost state is plain data, single-threaded
    unsafe {
        match op {
            // ------------------------------------------------------------ value replies
            fe::GET_FEATURES | fe::GET_PROTOCOL_FEATURES | fe::GET_QUEUE_NUM | fe::GET_MAX_MEM_SLOTS => {
                let rep = script_reply(op, 8, true);
                let allowed = match op {
                    fe::GET_PROTOCOL_FEATURES => st.v & spec::VIRTIO_F_PROTOCOL_FEATURES != 0,
                    fe::GET_QUEUE_NUM => gate(pf::MQ),
                    fe::GET_MAX_MEM_SLOTS => gate(pf::CONFIGURE_MEM_SLOTS),
                    _ => true,
                };
                let r: crate::Result<u64> = match op {
                    fe::GET_FEATURES => f.get_features(),
                    fe::GET_PROTOCOL_FEATURES => fm.get_protocol_features().map(|x| x.bits()),
                    fe::GET_QUEUE_NUM => fm.get_queue_num(),
                    _ => fm.get_max_mem_slots(),
                };
                wit = r.is_ok();
                if !allowed {
                    assert!(r.is_err() && g::G.tx_len == 0 && g::G.rx_calls == 0, "C07: gated query must not touch the wire");
                } else {
                    tx_is_header(op, st.need_reply, 0);
                    assert!(g::G.tx_first_nfds == 0);
                    assert!(!g::G.blocked, "C03: no indefinite wait");
                    let val = spec::rd64(&rep.body, 0);
                    if let Ok(got) = &r {
                        assert!(rep.hdr_matches(op) && rep.nfds == 0, "C06: accepted bytes that are not the reply to this request");
                        match op {
                            // the API type drops undefined protocol-feature bits
                            fe::GET_PROTOCOL_FEATURES => assert!(*got == val & 0x3f_ffff, "C03: value returned = value replied (defined bits)"),
                            fe::GET_QUEUE_NUM => assert!(*got == val && val <= 0x8000, "C03/C06: queue count"),
                            _ => assert!(*got == val, "C03: value returned = value replied"),
                        }
                    }
                    if rep.hdr_conformant(op, 8) && rep.nfds == 0 && (op != fe::GET_QUEUE_NUM || val <= 0x8000) {
                        assert!(r.is_ok(), "C03: conformant reply must be accepted");
                    }
                }
                if op == fe::GET_QUEUE_NUM {
                    // the bound every per-queue call is checked against: the accepted reply's value, otherwise untouched
                    let n = f.node.try_lock().unwrap();
                    let want = if r.is_ok() { spec::rd64(&rep.body, 0) } else { st.maxq };
                    assert!(n.max_queue_num == want, "C02: a refused / failed GET_QUEUE_NUM leaves the known queue maximum unchanged; an accepted one sets it to the replied value");
                    drop(n);
                }
                std::mem::forget(r);
            }
            fe::GET_VRING_BASE => {
                let rep = script_reply(op, 8, true);
                let r = f.get_vring_base(qi);
                wit = r.is_ok();
                if !q_ok {
                    assert!(r.is_err() && g::G.tx_len == 0, "C02: queue index beyond the maximum is refused locally");
                } else {
                    tx_is_header(op, st.need_reply, 8);
                    assert!(g::tx32(12) == qi as u32 && g::tx32(16) == 0, "C01: vring state body");
                    assert!(!g::G.blocked);
                    if let Ok(got) = &r {
                        assert!(rep.hdr_matches(op) && rep.nfds == 0, "C06");
                        assert!(*got == spec::rd32(&rep.body, 4), "C03: base = num field of the reply");
                    }
                    if rep.hdr_conformant(op, 8) && rep.nfds == 0 {
                        assert!(r.is_ok(), "C03");
                    }
                }
                std::mem::forget(r);
            }
            fe::CHECK_DEVICE_STATE => {
                let rep = script_reply(op, 8, true);
                let r = f.check_device_state();
                wit = r.is_ok();
                if !gate(pf::DEVICE_STATE) {
                    assert!(r.is_err() && g::G.tx_len == 0, "C07: device-state transfer needs DEVICE_STATE");
                } else {
                    tx_is_header(op, st.need_reply, 0);
                    assert!(!g::G.blocked);
                    let val = spec::rd64(&rep.body, 0);
                    if r.is_ok() {
                        assert!(rep.hdr_matches(op) && rep.nfds == 0 && val == 0, "C03/C06: success only for a zero status reply");
                    }
                    if rep.hdr_conformant(op, 8) && rep.nfds == 0 {
                        assert!(r.is_ok() == (val == 0), "C03");
                    }
                }
                std::mem::forget(r);
            }
            // ------------------------------------------------------------ acknowledged set-operations
            fe::SET_FEATURES | fe::SET_PROTOCOL_FEATURES => {
                let val: u64 = kani::any();
                let allowed = op == fe::SET_FEATURES || st.v & spec::VIRTIO_F_PROTOCOL_FEATURES != 0;
                // SET_PROTOCOL_FEATURES itself changes the acked set the ack decision is based on
                let pval = val & 0x3f_ffff;
                let st2 = if op == fe::SET_PROTOCOL_FEATURES { St { ap: pval, ..St { v: st.v, av: st.av, p: st.p, ap: st.ap, maxq: st.maxq, need_reply: st.need_reply } } } else { St { v: st.v, av: st.av, p: st.p, ap: st.ap, maxq: st.maxq, need_reply: st.need_reply } };
                let (waits, rep) = script_ack(op, &st2);
                let r = if op == fe::SET_FEATURES { f.set_features(val) } else { fm.set_protocol_features(VhostUserProtocolFeatures::from_bits_truncate(val)) };
                wit = r.is_ok();
                if !allowed {
                    assert!(r.is_err() && g::G.tx_len == 0, "C07: protocol-feature exchange needs the offered PROTOCOL_FEATURES bit");
                    // a refused call must not change what later gates are decided on
                    let n = f.node.try_lock().unwrap();
                    assert!(n.acked_protocol_features == st.ap && n.acked_virtio_features == st.av, "C07: a locally refused negotiation call leaves the acknowledged feature sets unchanged");
                    drop(n);
                } else {
                    tx_is_header(op, st.need_reply, 8);
                    assert!(g::tx64(12) == if op == fe::SET_FEATURES { val } else { pval }, "C01: u64 body");
                    check_ack_outcome(op, waits, r.is_ok(), &rep);
                }
                std::mem::forget(r);
            }
            fe::SET_OWNER | fe::RESET_OWNER | fe::RESET_DEVICE => {
                let (waits, rep) = script_ack(op, &st);
                let allowed = op != fe::RESET_DEVICE || gate(pf::RESET_DEVICE);
                let r = match op {
                    fe::SET_OWNER => f.set_owner(),
                    fe::RESET_OWNER => f.reset_owner(),
                    _ => fm.reset_device(),
                };
                wit = r.is_ok();
                if !allowed {
                    assert!(r.is_err() && g::G.tx_len == 0, "C07");
                } else {
                    tx_is_header(op, st.need_reply, 0);
                    assert!(g::G.tx_first_nfds == 0);
                    check_ack_outcome(op, waits, r.is_ok(), &rep);
                }
                std::mem::forget(r);
            }
            fe::SET_VRING_NUM | fe::SET_VRING_BASE | fe::SET_VRING_ENABLE => {
                let (waits, rep) = script_ack(op, &st);
                let num: u16 = kani::any();
                let en: bool = kani::any();
                let allowed = op != fe::SET_VRING_ENABLE || st.av & spec::VIRTIO_F_PROTOCOL_FEATURES != 0;
                let r = match op {
                    fe::SET_VRING_NUM => f.set_vring_num(qi, num),
                    fe::SET_VRING_BASE => f.set_vring_base(qi, num),
                    _ => fm.set_vring_enable(qi, en),
                };
                wit = r.is_ok();
                if !allowed || !q_ok {
                    assert!(r.is_err() && g::G.tx_len == 0, "C07/C02: refused locally, nothing on the wire");
                } else {
                    tx_is_header(op, st.need_reply, 8);
                    let second = if op == fe::SET_VRING_ENABLE { en as u32 } else { num as u32 };
                    assert!(g::tx32(12) == qi as u32 && g::tx32(16) == second, "C01: vring state body");
                    check_ack_outcome(op, waits, r.is_ok(), &rep);
                }
                std::mem::forget(r);
            }
            fe::SET_VRING_ADDR => {
                let (waits, rep) = script_ack(op, &st);
                let cfg = VringConfigData {
                    queue_max_size: kani::any(), queue_size: kani::any(), flags: kani::any(),
                    desc_table_addr: kani::any(), used_ring_addr: kani::any(), avail_ring_addr: kani::any(),
                    log_addr: if kani::any() { Some(kani::any()) } else { None },
                };
                let r = f.set_vring_addr(qi, &cfg);
                wit = r.is_ok();
                if !q_ok || cfg.flags & !1 != 0 {
                    assert!(r.is_err() && g::G.tx_len == 0, "C02: refused locally");
                } else {
                    tx_is_header(op, st.need_reply, 40);
                    assert!(g::tx32(12) == qi as u32 && g::tx32(16) == cfg.flags);
                    assert!(g::tx64(20) == cfg.desc_table_addr && g::tx64(28) == cfg.used_ring_addr && g::tx64(36) == cfg.avail_ring_addr);
                    assert!(g::tx64(44) == cfg.log_addr.unwrap_or(0), "C01: vring addr body at spec offsets");
                    check_ack_outcome(op, waits, r.is_ok(), &rep);
                }
                std::mem::forget(r);
            }
            fe::SET_VRING_KICK | fe::SET_VRING_CALL | fe::SET_VRING_ERR => {
                let (waits, rep) = script_ack(op, &st);
                let ev = ManuallyDrop::new(EventFd::from_raw_fd(LENT_FD));
                let r = match op {
                    fe::SET_VRING_KICK => f.set_vring_kick(qi, &ev),
                    fe::SET_VRING_CALL => f.set_vring_call(qi, &ev),
                    _ => f.set_vring_err(qi, &ev),
                };
                wit = r.is_ok();
                if !q_ok {
                    assert!(r.is_err() && g::G.tx_len == 0, "C02");
                } else {
                    tx_is_header(op, st.need_reply, 8);
                    assert!(g::tx64(12) == qi as u64, "C01: index in the low bits, no-fd flag clear");
                    assert!(g::G.tx_first_nfds == 1 && g::G.tx_first_fd0 == LENT_FD, "C01/C02: the caller's descriptor rides on the first byte");
                    check_ack_outcome(op, waits, r.is_ok(), &rep);
                }
                assert!(!g::G.lent_closed, "C09: a lent descriptor must not be closed by the library");
                std::mem::forget(r);
            }
            fe::SET_LOG_FD | fe::SET_BACKEND_REQ_FD => {
                let (waits, rep) = script_ack(op, &st);
                let allowed = op == fe::SET_LOG_FD || gate(pf::BACKEND_REQ);
                let ev = ManuallyDrop::new(EventFd::from_raw_fd(LENT_FD));
                let r = if op == fe::SET_LOG_FD { f.set_log_fd(LENT_FD) } else { fm.set_backend_request_fd(&*ev) };
                wit = r.is_ok();
                if !allowed {
                    assert!(r.is_err() && g::G.tx_len == 0, "C07");
                } else {
                    tx_is_header(op, st.need_reply, 0);
                    assert!(g::G.tx_first_nfds == 1 && g::G.tx_first_fd0 == LENT_FD, "C01");
                    check_ack_outcome(op, waits, r.is_ok(), &rep);
                }
                assert!(!g::G.lent_closed, "C09");
                std::mem::forget(r);
            }
            fe::ADD_MEM_REG | fe::REM_MEM_REG => {
                let (waits, rep) = script_ack(op, &st);
                let reg = VhostUserMemoryRegionInfo {
                    guest_phys_addr: kani::any(), memory_size: kani::any(), userspace_addr: kani::any(),
                    mmap_offset: kani::any(), mmap_handle: if kani::any() { LENT_FD } else { -1 },
                };
                let r = if op == fe::ADD_MEM_REG { fm.add_mem_region(&reg) } else { fm.remove_mem_region(&reg) };
                wit = r.is_ok();
                let local_ok = reg.memory_size != 0 && (op == fe::REM_MEM_REG || reg.mmap_handle >= 0);
                if !gate(pf::CONFIGURE_MEM_SLOTS) || !local_ok {
                    assert!(r.is_err() && g::G.tx_len == 0, "C07/C02: refused locally");
                } else {
                    tx_is_header(op, st.need_reply, 40);
                    assert!(g::tx64(12) == 0, "C01: padding");
                    assert!(g::tx64(20) == reg.guest_phys_addr && g::tx64(28) == reg.memory_size && g::tx64(36) == reg.userspace_addr && g::tx64(44) == reg.mmap_offset, "C01: single region body");
                    if op == fe::ADD_MEM_REG {
                        assert!(g::G.tx_first_nfds == 1 && g::G.tx_first_fd0 == LENT_FD);
                    } else {
                        assert!(g::G.tx_first_nfds == 0);
                    }
                    check_ack_outcome(op, waits, r.is_ok(), &rep);
                }
                assert!(!g::G.lent_closed, "C09");
                std::mem::forget(r);
            }
            fe::SET_INFLIGHT_FD => {
                let (waits, rep) = script_ack(op, &st);
                let inf = VhostUserInflight::new(kani::any(), kani::any(), kani::any(), kani::any());
                let fd: RawFd = if kani::any() { LENT_FD } else { -1 };
                let r = fm.set_inflight_fd(&inf, fd);
                wit = r.is_ok();
                let local_ok = inf.mmap_size != 0 && inf.num_queues != 0 && inf.queue_size != 0 && fd >= 0;
                if !gate(pf::INFLIGHT_SHMFD) || !local_ok {
                    assert!(r.is_err() && g::G.tx_len == 0, "C07/C02");
                } else {
                    tx_is_header(op, st.need_reply, 24);
                    assert!(g::tx64(12) == inf.mmap_size && g::tx64(20) == inf.mmap_offset);
                    assert!(g::tx32(28) == (inf.num_queues as u32 | (inf.queue_size as u32) << 16), "C01: inflight body");
                    assert!(g::G.tx_first_nfds == 1 && g::G.tx_first_fd0 == LENT_FD);
                    check_ack_outcome(op, waits, r.is_ok(), &rep);
                }
                std::mem::forget(r);
            }
            fe::SET_CONFIG => {
                let (waits, rep) = script_ack(op, &st);
                let off: u32 = kani::any();
                let flb: u8 = kani::any();
                let flags = VhostUserConfigFlags::from_bits_truncate(flb as u32);
                let data: [u8; 4] = kani::any();
                // payload length concrete per harness (a symbolic length makes the send loops unbounded for CBMC)
                let len: usize = variant;
                let r = fm.set_config(off, flags, &data[..len]);
                wit = if len == 0 { r.is_err() } else { r.is_ok() };
                let local_ok = len >= 1 && (off as u64) + (len as u64) <= 0x1000;
                if !local_ok || !gate(pf::CONFIG) {
                    assert!(r.is_err() && g::G.tx_len == 0, "C07/C02: invalid config window or un-negotiated CONFIG");
                } else {
                    tx_is_header(op, st.need_reply, 12 + len);
                    assert!(g::tx32(12) == off && g::tx32(16) == len as u32 && g::tx32(20) == (flb as u32 & 3), "C01: config header");
                    assert!(g::tx8(24) == data[0] && (len < 4 || g::tx8(27) == data[3]), "C01: config payload follows the header");
                    check_ack_outcome(op, waits, r.is_ok(), &rep);
                }
                std::mem::forget(r);
            }
            fe::SET_MEM_TABLE => {
                let (waits, rep) = script_ack(op, &st);
                let n: usize = variant; // region count concrete per harness (0, 1 or 2)
                let r0 = VhostUserMemoryRegionInfo { guest_phys_addr: kani::any(), memory_size: kani::any(), userspace_addr: kani::any(), mmap_offset: kani::any(), mmap_handle: if kani::any() { LENT_FD } else { -1 } };
                let r1 = VhostUserMemoryRegionInfo { guest_phys_addr: kani::any(), memory_size: kani::any(), userspace_addr: kani::any(), mmap_offset: kani::any(), mmap_handle: LENT_FD2 };
                let regs = [r0, r1];
                let r = f.set_mem_table(&regs[..n]);
                wit = if n == 0 { r.is_err() } else { r.is_ok() };
                let local_ok = n >= 1 && r0.memory_size != 0 && r0.mmap_handle >= 0 && (n < 2 || r1.memory_size != 0);
                if !local_ok {
                    assert!(r.is_err() && g::G.tx_len == 0, "C02: empty list / zero-sized region / bad handle refused locally");
                } else {
                    tx_is_header(op, st.need_reply, 8 + 32 * n);
                    assert!(g::tx32(12) == n as u32 && g::tx32(16) == 0, "C01: region count, zero padding");
                    assert!(g::tx64(20) == r0.guest_phys_addr && g::tx64(28) == r0.memory_size && g::tx64(36) == r0.userspace_addr && g::tx64(44) == r0.mmap_offset);
                    if n == 2 {
                        assert!(g::tx64(52) == r1.guest_phys_addr && g::tx64(60) == r1.memory_size && g::tx64(68) == r1.userspace_addr && g::tx64(76) == r1.mmap_offset);
                    }
                    assert!(g::G.tx_first_nfds == n && g::G.tx_first_fd0 == LENT_FD && (n < 2 || g::G.tx_first_fd1 == LENT_FD2), "C01: one descriptor per region, in order");
                    check_ack_outcome(op, waits, r.is_ok(), &rep);
                }
                assert!(!g::G.lent_closed, "C09");
                std::mem::forget(r);
            }
            // ------------------------------------------------------------ replies carrying a descriptor
            fe::GET_INFLIGHT_FD => {
                let rep = script_reply(op, 24, true);
                let inf = VhostUserInflight::new(kani::any(), kani::any(), kani::any(), kani::any());
                let r = fm.get_inflight_fd(&inf);
                wit = r.is_ok();
                if !gate(pf::INFLIGHT_SHMFD) {
                    assert!(r.is_err() && g::G.tx_len == 0, "C07");
                } else {
                    tx_is_header(op, st.need_reply, 24);
                    assert!(g::tx64(12) == inf.mmap_size && g::tx64(20) == inf.mmap_offset);
                    assert!(!g::G.blocked);
                    if let Ok((got, file)) = &r {
                        assert!(rep.hdr_matches(op) && spec::valid_inflight(&rep.body), "C06");
                        assert!(rep.nfds == 1 && file.as_raw_fd() == g::FD_BASE, "C03/C06: exactly the one returned descriptor");
                        assert!(got.mmap_size == spec::rd64(&rep.body, 0) && got.mmap_offset == spec::rd64(&rep.body, 8));
                        assert!(got.num_queues == spec::rd16(&rep.body, 16) && got.queue_size == spec::rd16(&rep.body, 18), "C03");
                    }
                    if rep.hdr_conformant(op, 24) && spec::valid_inflight(&rep.body) && rep.nfds == 1 {
                        assert!(r.is_ok(), "C03");
                    }
                    // C09: descriptors that arrived and were not handed to the caller are closed
                    if r.is_err() {
                        assert!(g::G.fd_state[0] != g::FD_OPEN && g::G.fd_state[1] != g::FD_OPEN, "C09: reply descriptors leaked on the error path");
                    }
                    assert!(!g::G.double_close);
                }
                std::mem::forget(r);
            }
            fe::GET_SHARED_OBJECT => {
                let rep = script_reply(op, 0, true);
                let ub: [u8; 16] = kani::any();
                let uuid = VhostUserSharedMsg { uuid: uuid::Uuid::from_bytes(ub) };
                let r = fm.get_shared_object(&uuid);
                wit = r.is_ok();
                if !gate(pf::SHARED_OBJECT) || !spec::valid_shared(&ub) {
                    assert!(r.is_err() && g::G.tx_len == 0, "C07/C02");
                } else {
                    tx_is_header(op, st.need_reply, 16);
                    assert!(g::tx64(12) == spec::rd64(&ub, 0) && g::tx64(20) == spec::rd64(&ub, 8), "C01: uuid bytes");
                    assert!(!g::G.blocked);
                    if let Ok(file) = &r {
                        assert!(rep.hdr_matches(op) && rep.nfds == 1 && file.as_raw_fd() == g::FD_BASE, "C03/C06");
                    }
                    if rep.hdr_conformant(op, 0) {
                        assert!(r.is_ok() == (rep.nfds == 1), "C03: a reply without descriptor is the failure encoding");
                    }
                    if r.is_err() {
                        assert!(g::G.fd_state[0] != g::FD_OPEN && g::G.fd_state[1] != g::FD_OPEN, "C09");
                    }
                }
                std::mem::forget(r);
            }
            fe::SET_DEVICE_STATE_FD => {
                let rep = script_reply(op, 8, true);
                let dir = if kani::any() { VhostTransferStateDirection::SAVE } else { VhostTransferStateDirection::LOAD };
                // the OwnedFd argument is consumed by the call: the library may (and does) close it
                let owned = std::os::fd::OwnedFd::from_raw_fd(LENT_FD2 + 10);
                let r = f.set_device_state_fd(dir, VhostTransferStatePhase::STOPPED, owned);
                wit = if variant == 0 { matches!(&r, Ok(Some(_))) } else { matches!(&r, Ok(None)) };
                if !gate(pf::DEVICE_STATE) {
                    assert!(r.is_err() && g::G.tx_len == 0, "C07: device-state transfer needs DEVICE_STATE");
                } else {
                    tx_is_header(op, st.need_reply, 8);
                    assert!(g::tx32(12) == dir as u32 && g::tx32(16) == 0, "C01: direction, phase");
                    assert!(g::G.tx_first_nfds == 1 && g::G.tx_first_fd0 == LENT_FD2 + 10);
                    assert!(!g::G.blocked);
                    let val = spec::rd64(&rep.body, 0);
                    match &r {
                        Ok(Some(file)) => assert!(rep.hdr_matches(op) && val == 0 && rep.nfds == 1 && file.as_raw_fd() == g::FD_BASE, "C03/C06"),
                        Ok(None) => assert!(rep.hdr_matches(op) && val == 0x100 && rep.nfds == 0, "C03/C06"),
                        Err(_) => {}
                    }
                    if rep.hdr_conformant(op, 8) {
                        let good = (val == 0 && rep.nfds == 1) || (val == 0x100 && rep.nfds == 0);
                        assert!(r.is_ok() == good, "C03: any other status / missing file is an error");
                    }
                    if !matches!(&r, Ok(Some(_))) {
                        assert!(g::G.fd_state[0] != g::FD_OPEN && g::G.fd_state[1] != g::FD_OPEN, "C09");
                    }
                }
                std::mem::forget(r);
            }
            // SET_LOG_BASE: with LOG_SHMFD and a region -> 16-byte body + descriptor + echoed reply;
            // otherwise the plain u64 base, no reply
            fe::SET_LOG_BASE => {
                let rep = script_reply(op, 16, true);
                let base: u64 = kani::any();
                // variant 0: symbolic choice; 1: plain u64 variant only; 2: LOG_SHMFD region variant only (concrete
                // choices keep a changed tree decidable when the two paths are merged behind a common tail)
                let with_region: bool = if variant == 1 { false } else if variant == 2 { true } else { kani::any() };
                let region = VhostUserDirtyLogRegion { mmap_size: kani::any(), mmap_offset: kani::any(), mmap_handle: LENT_FD };
                let r = f.set_log_base(base, if with_region { Some(region) } else { None });
                wit = r.is_ok() && (variant == 1 || (with_region && gate(pf::LOG_SHMFD)));
                if with_region && gate(pf::LOG_SHMFD) {
                    tx_is_header(op, st.need_reply, 16);
                    assert!(g::tx64(12) == region.mmap_size && g::tx64(20) == region.mmap_offset, "C01: log body");
                    assert!(g::G.tx_first_nfds == 1 && g::G.tx_first_fd0 == LENT_FD);
                    assert!(!g::G.blocked);
                    if r.is_ok() {
                        assert!(rep.hdr_matches(op) && rep.nfds == 0 && spec::valid_log(&rep.body), "C06");
                    }
                    if rep.hdr_conformant(op, 16) && rep.nfds == 0 && spec::valid_log(&rep.body) {
                        assert!(r.is_ok(), "C03");
                    }
                } else {
                    tx_is_header(op, st.need_reply, 8);
                    assert!(g::tx64(12) == base && g::G.tx_first_nfds == 0 && g::G.rx_calls == 0 && r.is_ok());
                }
                assert!(!g::G.lent_closed, "C09");
                std::mem::forget(r);
            }
            // GET_CONFIG: reply = config header + payload of the requested size; a zero-size reply
            // without payload is the backend's failure encoding (`variant`: which reply the peer sends)
            _ => {}
        }
    }
    // SAFETY: single-threaded harness
    unsafe { c10_after_call() };
    // cached negotiation state (every later gate and local queue-index check is decided on it): only the
    // call that negotiates / queries a word may change that word
    {
        let n = f.node.try_lock().unwrap();
        if op != fe::GET_QUEUE_NUM {
            assert!(n.max_queue_num == st.maxq, "C02/C07: the known queue maximum changes only through a successful GET_QUEUE_NUM");
        }
        if op != fe::SET_FEATURES {
            assert!(n.acked_virtio_features == st.av, "C07: acknowledged virtio features change only through SET_FEATURES");
        }
        if op != fe::SET_PROTOCOL_FEATURES {
            assert!(n.acked_protocol_features == st.ap, "C07: acknowledged protocol features change only through SET_PROTOCOL_FEATURES");
        }
        if op != fe::GET_FEATURES {
            assert!(n.virtio_features == st.v, "C07: offered virtio features change only through GET_FEATURES");
        }
        if op != fe::GET_PROTOCOL_FEATURES {
            assert!(n.protocol_features == st.p, "C07: offered protocol features change only through GET_PROTOCOL_FEATURES");
        }
        drop(n);
    }
    // a conformant reply that was accepted has been consumed entirely: the next call on the shared socket starts
    // at a message boundary (otherwise it would take this reply's tail for the answer to its own request)
    // SAFETY: ghost state
    unsafe {
        if REPLY_CLASS.0 == 0 && g::G.rx_calls > 0 && wit {
            assert!(g::G.rx_pos == g::G.rx_len, "C10/C03: an accepted reply / acknowledgement is consumed entirely, nothing of it is left on the socket");
        }
    }
    // descriptors that ride on a reply which by definition carries none (or on a reply that is refused) never
    // reach the caller: the library must have closed them
    if !matches!(op, fe::GET_INFLIGHT_FD | fe::GET_SHARED_OBJECT | fe::SET_DEVICE_STATE_FD) {
        // SAFETY: ghost state
        unsafe {
            assert!(!g::G.double_close, "C09: double close");
            assert!(g::G.fd_state[0] != g::FD_OPEN && g::G.fd_state[1] != g::FD_OPEN, "C09: descriptors attached to a reply / acknowledgement that defines none are closed by the library");
        }
    }
    // with a reply that answers another request the witness is the error path
    let wrong = unsafe { ((REPLY_CLASS.0 >= 1 && REPLY_CLASS.0 <= 4) || REPLY_CLASS.0 == 6) && g::G.rx_calls > 0 };
    kani::cover!(if wrong { !wit } else { wit }, "witness: the operation's success path (error path for a foreign reply) is reachable");
}

/// GET_CONFIG separately: the reply length depends on the request (payload of LEN bytes).
/// `class`: 0 conformant reply, 1 failure encoding (size 0, no payload, peer stays connected),
/// 2 reply for another window offset, 3 reply with a shorter size field.
/// Offset/flags of the request and the control words of the reply are concrete here (symbolic ones made
/// the SAT instance exceed 40 GB: the payload Vec is merged over a dozen early returns); the payload
/// bytes, the request bytes and the negotiation words are symbolic.
fn e_frontend_get_config(class: usize) {
    let (f, st) = mk_frontend();
    let mut fm = ManuallyDrop::new((*f).clone());
    let off: u32 = 0x10;
    let flags = VhostUserConfigFlags::WRITABLE;
    let data: [u8; 4] = kani::any();
    const LEN: usize = 4;
    let op = fe::GET_CONFIG;
    let peer_fails = class == 1;
    let rsize: u32 = match class { 1 => 0, 3 => 3, _ => LEN as u32 };
    let roff: u32 = if class == 2 { off + 4 } else { off };
    let rdata: [u8; 4] = kani::any();
    // classes 4 / 5: the body claims the full window but the message carries only 2 / 0 payload bytes
    let natural = match class { 1 | 5 => 12, 4 => 12 + 2, _ => 12 + LEN };
    // class 6: conformant header and body, but the stream ends 2 bytes into the 4-byte payload
    let cut_short = class == 6;
    // SAFETY: ghost state
    unsafe {
        g::put_hdr(0, op, 0x5, natural as u32);
        g::put32(12, roff);
        g::put32(16, rsize);
        g::put32(20, 1);
        g::put32(24, spec::rd32(&rdata, 0));
        g::G.rx_len = if cut_short { 12 + 12 + 2 } else { 12 + natural };
        g::G.rx_closed = cut_short; // otherwise the backend stays connected after its reply
        g::G.rx_nfds = 0;
    }
    let r = fm.get_config(off, LEN as u32, flags, &data[..]);
    kani::cover!(if class == 0 { r.is_ok() } else { r.is_err() && unsafe { g::G.rx_calls > 0 } }, "witness: config read accepted / failed after the reply");
    // SAFETY: ghost state
    unsafe {
        if st.ap & pf::CONFIG == 0 {
            assert!(r.is_err() && g::G.tx_len == 0, "C07: un-negotiated CONFIG");
        } else {
            tx_is_header(op, st.need_reply, 12 + LEN);
            assert!(g::tx32(12) == off && g::tx32(16) == LEN as u32 && g::tx32(20) == 1);
            assert!(g::tx32(24) == spec::rd32(&data, 0), "C01: request payload");
            assert!(!g::G.blocked, "C03: the failure reply carries no payload; waiting for it blocks forever while the peer is alive");
            c10_after_call();
            if let Ok((cfg, payload)) = &r {
                assert!(class == 0, "C03/C06: only the conformant reply may be reported as success");
                assert!(cfg.size == LEN as u32 && cfg.offset == off);
                assert!(payload.len() == LEN && payload[0] == rdata[0] && payload[3] == rdata[3], "C03: configuration bytes");
            } else {
                assert!(class != 0, "C03: conformant config reply must be accepted");
            }
        }
    }
    std::mem::forget(r);
}

macro_rules! e_fe {
    ($name:ident, $op:expr, $variant:expr) => {
        #[kani::proof]
        #[kani::unwind(5)]
        #[kani::stub(vmm_sys_util::sock_ctrl_msg::raw_recvmsg, fe_recvmsg)]
        #[kani::stub(vmm_sys_util::sock_ctrl_msg::raw_sendmsg, fe_sendmsg)]
        #[kani::stub(std::sync::Mutex::lock, g::ghost_mutex_lock)]
        #[kani::stub(libc::close, g::ghost_close)]
        #[kani::stub(<std::os::fd::OwnedFd as std::ops::Drop>::drop, g::ghost_ownedfd_drop)]
        #[kani::stub(std::alloc::handle_alloc_error, g::ghost_alloc_error)]
        fn $name() {
            e_frontend($op, $variant)
        }
    };
}
macro_rules! e_fe_cfg {
    ($name:ident, $fails:expr) => {
        #[kani::proof]
        #[kani::unwind(5)]
        #[kani::stub(vmm_sys_util::sock_ctrl_msg::raw_recvmsg, fe_recvmsg)]
        #[kani::stub(vmm_sys_util::sock_ctrl_msg::raw_sendmsg, fe_sendmsg)]
        #[kani::stub(std::sync::Mutex::lock, g::ghost_mutex_lock)]
        #[kani::stub(libc::close, g::ghost_close)]
        #[kani::stub(<std::os::fd::OwnedFd as std::ops::Drop>::drop, g::ghost_ownedfd_drop)]
        #[kani::stub(std::alloc::handle_alloc_error, g::ghost_alloc_error)]
        fn $name() {
            e_frontend_get_config($fails)
        }
    };
}

// =============================================================== unit level (C06): fully symbolic reply headers
// The endpoint state is built on the stack (no Arc), so symbolic control words are affordable here.
fn mk_internal() -> ManuallyDrop<FrontendInternal> {
    ManuallyDrop::new(FrontendInternal {
        // SAFETY: descriptor 5 is never used for real I/O
        main_sock: Endpoint::<VhostUserMsgHeader<FrontendReq>>::from_stream(unsafe { UnixStream::from_raw_fd(5) }),
        virtio_features: kani::any(),
        acked_virtio_features: kani::any(),
        protocol_features: kani::any(),
        acked_protocol_features: kani::any(),
        protocol_features_ready: kani::any(),
        max_queue_num: kani::any(),
        error: None,
        hdr_flags: VhostUserHeaderFlag::empty(),
    })
}
macro_rules! u_fe {
    ($(#[$m:meta])* fn $name:ident() $body:block) => {
        $(#[$m])*
        #[kani::proof]
        #[kani::unwind(5)]
        #[kani::stub(vmm_sys_util::sock_ctrl_msg::raw_recvmsg, g::ghost_recvmsg)]
        #[kani::stub(vmm_sys_util::sock_ctrl_msg::raw_sendmsg, g::ghost_sendmsg)]
        #[kani::stub(<std::os::fd::OwnedFd as std::ops::Drop>::drop, g::ghost_ownedfd_drop)]
        #[kani::stub(std::alloc::handle_alloc_error, g::ghost_alloc_error)]
        fn $name() $body
    };
}

// @harness props=C10,C03,C02 tier=quick reach=off timeout=600 bound="FrontendInternal::recv_reply_with_payload::<VhostUserConfig> for EVERY GET_CONFIG request header the send side accepts (payload 1..=4084 bytes, i.e. size 13..=4096), answered by the backend's failure reply (config body with size 0, no payload, peer stays connected): the reply is read and consumed entirely - a request that was written is never left unanswered on the shared socket" stubs="raw_recvmsg/raw_sendmsg (ghost socket), OwnedFd::drop, handle_alloc_error"
u_fe! { fn c10_u_reply_with_payload_is_read() {
    let mut n = mk_internal();
    let plen: usize = kani::any();
    kani::assume(plen >= 1 && plen <= 4084);
    let req = VhostUserMsgHeader::<FrontendReq>::new(FrontendReq::GET_CONFIG, 0, (12 + plen) as u32);
    let off: u32 = kani::any();
    // SAFETY: ghost state
    unsafe {
        g::put_hdr(0, spec::fe::GET_CONFIG, 0x5, 12);
        g::put64(12, off as u64); // offset, size = 0
        g::put64(20, 0);          // flags (4 bytes of it are part of the message)
        g::G.rx_len = 24;
        g::G.rx_closed = false;
        g::G.rx_nfds = 0;
    }
    let r = n.recv_reply_with_payload::<VhostUserConfig>(&req);
    kani::cover!(plen == 4084);
    assert!(r.is_err(), "C03: the failure encoding is never reported as success");
    // SAFETY: ghost state
    unsafe {
        assert!(g::G.rx_calls > 0 && g::G.rx_pos == 24, "C10/C03: the reply to a request that was written is read and consumed (otherwise the next caller on the shared socket takes it for its own)");
        assert!(!g::G.blocked, "C03: no wait for bytes the peer never sends");
    }
    std::mem::forget(r);
} }

// @harness props=C06,C20 tier=quick native=yes bound="is_reply_for: all pairs of (request, flags) words of reply and request headers (2^128)" stubs="-"
#[kani::proof]
fn c06_u_is_reply_for() {
    let (rc, rf, qc, qf): (u32, u32, u32, u32) = (kani::any(), kani::any(), kani::any(), kani::any());
    let mut rb = [0u8; 12];
    let mut qb = [0u8; 12];
    spec::wr32(&mut rb, 0, rc);
    spec::wr32(&mut rb, 4, rf);
    spec::wr32(&mut qb, 0, qc);
    spec::wr32(&mut qb, 4, qf);
    // SAFETY: 12 bytes of plain old data
    let r: VhostUserMsgHeader<FrontendReq> = unsafe { core::ptr::read_unaligned(rb.as_ptr() as *const _) };
    let q: VhostUserMsgHeader<FrontendReq> = unsafe { core::ptr::read_unaligned(qb.as_ptr() as *const _) };
    let exp = spec::frontend_code_known(rc) && rc == qc && rf & spec::F_REPLY != 0 && qf & spec::F_REPLY == 0;
    kani::cover!(r.is_reply_for(&q));
    assert!(r.is_reply_for(&q) == exp, "C06: a header answers a request iff REPLY is set on it (and not on the request) and the request codes are equal and known");
}

// @harness props=C06,C03 tier=quick reach=off timeout=600 bound="FrontendInternal::recv_reply<u64> for a GET_FEATURES request: reply header words (request, flags, size) FULLY symbolic, body symbolic, 0..=2 descriptors" stubs="raw_recvmsg/raw_sendmsg (ghost socket), OwnedFd::drop, handle_alloc_error"
u_fe! { fn c06_u_recv_reply_u64() {
    let mut n = mk_internal();
    let req = VhostUserMsgHeader::<FrontendReq>::new(FrontendReq::GET_FEATURES, 0, 0);
    let (rc, rf, rs): (u32, u32, u32) = (kani::any(), kani::any(), kani::any());
    let val: u64 = kani::any();
    let nfds: usize = kani::any();
    kani::assume(nfds <= 2);
    // SAFETY: ghost state
    unsafe {
        g::put_hdr(0, rc, rf, rs);
        g::put64(12, val);
        g::G.rx_len = 20;
        g::G.rx_closed = true;
        g::G.rx_nfds = nfds;
    }
    let r = n.recv_reply::<VhostUserU64>(&req);
    kani::cover!(r.is_ok());
    let hdr_ok = rc == spec::fe::GET_FEATURES && rf & spec::F_REPLY != 0 && spec::valid_header(true, rf, rs);
    if let Ok(v) = &r {
        assert!(hdr_ok && nfds == 0, "C06: accepted bytes that are not a reply to this request");
        assert!(v.value == val, "C03: value returned = value replied");
    }
    if hdr_ok && nfds == 0 {
        assert!(r.is_ok(), "C03: a valid reply must be accepted");
    }
    // SAFETY: ghost state
    unsafe { assert!(!g::G.double_close && (r.is_ok() || (g::G.fd_state[0] != g::FD_OPEN && g::G.fd_state[1] != g::FD_OPEN)), "C09: descriptors of a refused reply are closed") };
    std::mem::forget(r);
} }

// @harness props=C06,C03 tier=quick reach=off timeout=600 bound="FrontendInternal::wait_for_ack for a SET_VRING_NUM request: ack header words FULLY symbolic, value symbolic, 0..=2 descriptors, REPLY_ACK / NEED_REPLY symbolic" stubs="raw_recvmsg/raw_sendmsg (ghost socket), OwnedFd::drop, handle_alloc_error"
u_fe! { fn c06_u_wait_for_ack() {
    let mut n = mk_internal();
    let need_reply: bool = kani::any();
    let req = VhostUserMsgHeader::<FrontendReq>::new(FrontendReq::SET_VRING_NUM, if need_reply { 0x8 } else { 0 }, 8);
    let (rc, rf, rs): (u32, u32, u32) = (kani::any(), kani::any(), kani::any());
    let val: u64 = kani::any();
    let nfds: usize = kani::any();
    kani::assume(nfds <= 2);
    // SAFETY: ghost state
    unsafe {
        g::put_hdr(0, rc, rf, rs);
        g::put64(12, val);
        g::G.rx_len = 20;
        g::G.rx_closed = true;
        g::G.rx_nfds = nfds;
    }
    let waits = need_reply && n.acked_protocol_features & pf::REPLY_ACK != 0;
    let r = n.wait_for_ack(&req);
    kani::cover!(r.is_ok() && waits);
    // SAFETY: ghost state
    unsafe {
        if !waits {
            assert!(r.is_ok() && g::G.rx_calls == 0, "C18/C03: no acknowledgement awaited unless negotiated and requested");
        } else {
            let hdr_ok = rc == spec::fe::SET_VRING_NUM && rf & spec::F_REPLY != 0 && spec::valid_header(true, rf, rs);
            if r.is_ok() {
                assert!(hdr_ok && nfds == 0 && val == 0, "C06/C03: success only for a zero ack answering this request");
            }
            if hdr_ok && nfds == 0 {
                assert!(r.is_ok() == (val == 0), "C03: ack value 0 <=> success");
            }
        }
    }
    std::mem::forget(r);
} }

// @harness props=C06,C03,C09 tier=quick reach=off timeout=600 bound="FrontendInternal::recv_reply_with_files<inflight> for a GET_INFLIGHT_FD request: reply header words FULLY symbolic, 24 body bytes symbolic, 0..=2 descriptors" stubs="raw_recvmsg/raw_sendmsg (ghost socket), OwnedFd::drop, handle_alloc_error"
u_fe! { fn c06_u_recv_reply_with_files() {
    let mut n = mk_internal();
    let req = VhostUserMsgHeader::<FrontendReq>::new(FrontendReq::GET_INFLIGHT_FD, 0, 24);
    let (rc, rf, rs): (u32, u32, u32) = (kani::any(), kani::any(), kani::any());
    let body: [u8; 24] = kani::any();
    let nfds: usize = kani::any();
    kani::assume(nfds <= 2);
    // SAFETY: ghost state
    unsafe {
        g::put_hdr(0, rc, rf, rs);
        g::put64(12, spec::rd64(&body, 0));
        g::put64(20, spec::rd64(&body, 8));
        g::put64(28, spec::rd64(&body, 16));
        g::G.rx_len = 36;
        g::G.rx_closed = true;
        g::G.rx_nfds = nfds;
    }
    let r = n.recv_reply_with_files::<VhostUserInflight>(&req);
    kani::cover!(r.is_ok());
    let hdr_ok = rc == spec::fe::GET_INFLIGHT_FD && rf & spec::F_REPLY != 0 && spec::valid_header(true, rf, rs);
    if let Ok((v, files)) = &r {
        assert!(hdr_ok && spec::valid_inflight(&body), "C06: accepted bytes that are not a valid reply to this request");
        assert!(files.as_ref().map_or(0, |f| f.len()) == nfds && nfds >= 1, "C06: descriptors present");
        assert!(v.mmap_size == spec::rd64(&body, 0) && v.mmap_offset == spec::rd64(&body, 8) && v.num_queues == spec::rd16(&body, 16) && v.queue_size == spec::rd16(&body, 18), "C03/C01: decoded reply = wire bytes");
    }
    if hdr_ok && spec::valid_inflight(&body) && nfds >= 1 {
        assert!(r.is_ok(), "C03: a valid reply must be accepted");
    }
    std::mem::forget(r);
} }

// ==== generated by tools/gen_e_fe.py ====
// @harness props=C01,C02,C03,C06,C07,C10 tier=quick reach=off timeout=500 bound="Frontend::get_features: all argument values, five 64-bit negotiation/limit words, NEED_REPLY on/off, peer reply header of one concrete class (conformant unless named in the harness), 40 symbolic body bytes, 0..=2 descriptors; one call" stubs="vmm-sys-util raw_recvmsg/raw_sendmsg (ghost stream socket), libc::close + OwnedFd::drop (ghost descriptor table), handle_alloc_error (assume false)"
e_fe!(e_fe_get_features, 1, 0);
// @harness props=C01,C02,C03,C06,C07,C10 tier=quick reach=off timeout=500 bound="Frontend::get_features_foreign_code: all argument values, five 64-bit negotiation/limit words, NEED_REPLY on/off, peer reply header of one concrete class (conformant unless named in the harness), 40 symbolic body bytes, 0..=2 descriptors; one call" stubs="vmm-sys-util raw_recvmsg/raw_sendmsg (ghost stream socket), libc::close + OwnedFd::drop (ghost descriptor table), handle_alloc_error (assume false)"
e_fe!(e_fe_get_features_foreign_code, 1, 256);
// @harness props=C01,C02,C03,C06,C07,C10 tier=quick reach=off timeout=500 bound="Frontend::get_features_noreplyflag: all argument values, five 64-bit negotiation/limit words, NEED_REPLY on/off, peer reply header of one concrete class (conformant unless named in the harness), 40 symbolic body bytes, 0..=2 descriptors; one call" stubs="vmm-sys-util raw_recvmsg/raw_sendmsg (ghost stream socket), libc::close + OwnedFd::drop (ghost descriptor table), handle_alloc_error (assume false)"
e_fe!(e_fe_get_features_noreplyflag, 1, 512);
// @harness props=C01,C02,C03,C06,C07,C10 tier=thorough reach=off timeout=500 bound="Frontend::get_features_version2: all argument values, five 64-bit negotiation/limit words, NEED_REPLY on/off, peer reply header of one concrete class (conformant unless named in the harness), 40 symbolic body bytes, 0..=2 descriptors; one call" stubs="vmm-sys-util raw_recvmsg/raw_sendmsg (ghost stream socket), libc::close + OwnedFd::drop (ghost descriptor table), handle_alloc_error (assume false)"
e_fe!(e_fe_get_features_version2, 1, 768);
// @harness props=C01,C02,C03,C06,C07,C10 tier=thorough reach=off timeout=500 bound="Frontend::get_features_reservedbit: all argument values, five 64-bit negotiation/limit words, NEED_REPLY on/off, peer reply header of one concrete class (conformant unless named in the harness), 40 symbolic body bytes, 0..=2 descriptors; one call" stubs="vmm-sys-util raw_recvmsg/raw_sendmsg (ghost stream socket), libc::close + OwnedFd::drop (ghost descriptor table), handle_alloc_error (assume false)"
e_fe!(e_fe_get_features_reservedbit, 1, 1024);
// @harness props=C01,C02,C03,C06,C07,C10 tier=thorough reach=off timeout=500 bound="Frontend::get_features_size_plus1: all argument values, five 64-bit negotiation/limit words, NEED_REPLY on/off, peer reply header of one concrete class (conformant unless named in the harness), 40 symbolic body bytes, 0..=2 descriptors; one call" stubs="vmm-sys-util raw_recvmsg/raw_sendmsg (ghost stream socket), libc::close + OwnedFd::drop (ghost descriptor table), handle_alloc_error (assume false)"
e_fe!(e_fe_get_features_size_plus1, 1, 1280);
// @harness props=C01,C02,C03,C06,C07,C08,C09,C10 tier=quick reach=off timeout=500 bound="Frontend::get_features_body_cut_by_eof: all argument values, five 64-bit negotiation/limit words, NEED_REPLY on/off, peer reply header of one concrete class (conformant unless named in the harness), 40 symbolic body bytes, 0..=2 descriptors; one call" stubs="vmm-sys-util raw_recvmsg/raw_sendmsg (ghost stream socket), libc::close + OwnedFd::drop (ghost descriptor table), handle_alloc_error (assume false)"
e_fe!(e_fe_get_features_body_cut_by_eof, 1, 1536);
// @harness props=C01,C02,C03,C06,C07,C10 tier=quick reach=off timeout=500 bound="Frontend::set_features: all argument values, five 64-bit negotiation/limit words, NEED_REPLY on/off, peer reply header of one concrete class (conformant unless named in the harness), 40 symbolic body bytes, 0..=2 descriptors; one call" stubs="vmm-sys-util raw_recvmsg/raw_sendmsg (ghost stream socket), libc::close + OwnedFd::drop (ghost descriptor table), handle_alloc_error (assume false)"
e_fe!(e_fe_set_features, 2, 0);
// @harness props=C01,C02,C03,C06,C10 tier=thorough reach=off timeout=500 bound="Frontend::set_owner: all argument values, five 64-bit negotiation/limit words, NEED_REPLY on/off, peer reply header of one concrete class (conformant unless named in the harness), 40 symbolic body bytes, 0..=2 descriptors; one call" stubs="vmm-sys-util raw_recvmsg/raw_sendmsg (ghost stream socket), libc::close + OwnedFd::drop (ghost descriptor table), handle_alloc_error (assume false)"
e_fe!(e_fe_set_owner, 3, 0);
// @harness props=C01,C02,C03,C06,C10 tier=thorough reach=off timeout=500 bound="Frontend::reset_owner: all argument values, five 64-bit negotiation/limit words, NEED_REPLY on/off, peer reply header of one concrete class (conformant unless named in the harness), 40 symbolic body bytes, 0..=2 descriptors; one call" stubs="vmm-sys-util raw_recvmsg/raw_sendmsg (ghost stream socket), libc::close + OwnedFd::drop (ghost descriptor table), handle_alloc_error (assume false)"
e_fe!(e_fe_reset_owner, 4, 0);
// @harness props=C01,C02,C03,C06,C09,C10 tier=quick reach=off timeout=500 bound="Frontend::set_mem_table_2regions: all argument values, five 64-bit negotiation/limit words, NEED_REPLY on/off, peer reply header of one concrete class (conformant unless named in the harness), 40 symbolic body bytes, 0..=2 descriptors; one call" stubs="vmm-sys-util raw_recvmsg/raw_sendmsg (ghost stream socket), libc::close + OwnedFd::drop (ghost descriptor table), handle_alloc_error (assume false)"
e_fe!(e_fe_set_mem_table_2regions, 5, 2);
// @harness props=C01,C02,C03,C06,C09,C10 tier=thorough reach=off timeout=500 bound="Frontend::set_mem_table_1region: all argument values, five 64-bit negotiation/limit words, NEED_REPLY on/off, peer reply header of one concrete class (conformant unless named in the harness), 40 symbolic body bytes, 0..=2 descriptors; one call" stubs="vmm-sys-util raw_recvmsg/raw_sendmsg (ghost stream socket), libc::close + OwnedFd::drop (ghost descriptor table), handle_alloc_error (assume false)"
e_fe!(e_fe_set_mem_table_1region, 5, 1);
// @harness props=C01,C02,C03,C06,C09,C10 tier=thorough reach=off timeout=500 bound="Frontend::set_mem_table_empty: all argument values, five 64-bit negotiation/limit words, NEED_REPLY on/off, peer reply header of one concrete class (conformant unless named in the harness), 40 symbolic body bytes, 0..=2 descriptors; one call" stubs="vmm-sys-util raw_recvmsg/raw_sendmsg (ghost stream socket), libc::close + OwnedFd::drop (ghost descriptor table), handle_alloc_error (assume false)"
e_fe!(e_fe_set_mem_table_empty, 5, 0);
// @harness props=C01,C02,C03,C06,C07,C09,C10 tier=quick reach=off timeout=500 bound="Frontend::set_log_base: all argument values, five 64-bit negotiation/limit words, NEED_REPLY on/off, peer reply header of one concrete class (conformant unless named in the harness), 40 symbolic body bytes, 0..=2 descriptors; one call" stubs="vmm-sys-util raw_recvmsg/raw_sendmsg (ghost stream socket), libc::close + OwnedFd::drop (ghost descriptor table), handle_alloc_error (assume false)"
e_fe!(e_fe_set_log_base, 6, 0);
// @harness props=C01,C02,C03,C06,C07,C09,C10 tier=quick reach=off timeout=500 bound="Frontend::set_log_base_plain: all argument values, five 64-bit negotiation/limit words, NEED_REPLY on/off, peer reply header of one concrete class (conformant unless named in the harness), 40 symbolic body bytes, 0..=2 descriptors; one call" stubs="vmm-sys-util raw_recvmsg/raw_sendmsg (ghost stream socket), libc::close + OwnedFd::drop (ghost descriptor table), handle_alloc_error (assume false)"
e_fe!(e_fe_set_log_base_plain, 6, 1);
// @harness props=C01,C02,C03,C06,C07,C09,C10 tier=quick reach=off timeout=500 bound="Frontend::set_log_base_region: all argument values, five 64-bit negotiation/limit words, NEED_REPLY on/off, peer reply header of one concrete class (conformant unless named in the harness), 40 symbolic body bytes, 0..=2 descriptors; one call" stubs="vmm-sys-util raw_recvmsg/raw_sendmsg (ghost stream socket), libc::close + OwnedFd::drop (ghost descriptor table), handle_alloc_error (assume false)"
e_fe!(e_fe_set_log_base_region, 6, 2);
// @harness props=C01,C02,C03,C06,C09,C10 tier=thorough reach=off timeout=500 bound="Frontend::set_log_fd: all argument values, five 64-bit negotiation/limit words, NEED_REPLY on/off, peer reply header of one concrete class (conformant unless named in the harness), 40 symbolic body bytes, 0..=2 descriptors; one call" stubs="vmm-sys-util raw_recvmsg/raw_sendmsg (ghost stream socket), libc::close + OwnedFd::drop (ghost descriptor table), handle_alloc_error (assume false)"
e_fe!(e_fe_set_log_fd, 7, 0);
// @harness props=C01,C02,C03,C06,C10 tier=thorough reach=off timeout=500 bound="Frontend::set_vring_num: all argument values, five 64-bit negotiation/limit words, NEED_REPLY on/off, peer reply header of one concrete class (conformant unless named in the harness), 40 symbolic body bytes, 0..=2 descriptors; one call" stubs="vmm-sys-util raw_recvmsg/raw_sendmsg (ghost stream socket), libc::close + OwnedFd::drop (ghost descriptor table), handle_alloc_error (assume false)"
e_fe!(e_fe_set_vring_num, 8, 0);
// @harness props=C01,C02,C03,C06,C10 tier=thorough reach=off timeout=500 bound="Frontend::set_vring_num_foreign_code: all argument values, five 64-bit negotiation/limit words, NEED_REPLY on/off, peer reply header of one concrete class (conformant unless named in the harness), 40 symbolic body bytes, 0..=2 descriptors; one call" stubs="vmm-sys-util raw_recvmsg/raw_sendmsg (ghost stream socket), libc::close + OwnedFd::drop (ghost descriptor table), handle_alloc_error (assume false)"
e_fe!(e_fe_set_vring_num_foreign_code, 8, 256);
// @harness props=C01,C02,C03,C06,C10 tier=thorough reach=off timeout=500 bound="Frontend::set_vring_num_noreplyflag: all argument values, five 64-bit negotiation/limit words, NEED_REPLY on/off, peer reply header of one concrete class (conformant unless named in the harness), 40 symbolic body bytes, 0..=2 descriptors; one call" stubs="vmm-sys-util raw_recvmsg/raw_sendmsg (ghost stream socket), libc::close + OwnedFd::drop (ghost descriptor table), handle_alloc_error (assume false)"
e_fe!(e_fe_set_vring_num_noreplyflag, 8, 512);
// @harness props=C01,C02,C03,C06,C10 tier=thorough reach=off timeout=500 bound="Frontend::set_vring_num_version2: all argument values, five 64-bit negotiation/limit words, NEED_REPLY on/off, peer reply header of one concrete class (conformant unless named in the harness), 40 symbolic body bytes, 0..=2 descriptors; one call" stubs="vmm-sys-util raw_recvmsg/raw_sendmsg (ghost stream socket), libc::close + OwnedFd::drop (ghost descriptor table), handle_alloc_error (assume false)"
e_fe!(e_fe_set_vring_num_version2, 8, 768);
// @harness props=C01,C02,C03,C06,C10 tier=thorough reach=off timeout=500 bound="Frontend::set_vring_num_reservedbit: all argument values, five 64-bit negotiation/limit words, NEED_REPLY on/off, peer reply header of one concrete class (conformant unless named in the harness), 40 symbolic body bytes, 0..=2 descriptors; one call" stubs="vmm-sys-util raw_recvmsg/raw_sendmsg (ghost stream socket), libc::close + OwnedFd::drop (ghost descriptor table), handle_alloc_error (assume false)"
e_fe!(e_fe_set_vring_num_reservedbit, 8, 1024);
// @harness props=C01,C02,C03,C06,C10 tier=thorough reach=off timeout=500 bound="Frontend::set_vring_num_size_plus1: all argument values, five 64-bit negotiation/limit words, NEED_REPLY on/off, peer reply header of one concrete class (conformant unless named in the harness), 40 symbolic body bytes, 0..=2 descriptors; one call" stubs="vmm-sys-util raw_recvmsg/raw_sendmsg (ghost stream socket), libc::close + OwnedFd::drop (ghost descriptor table), handle_alloc_error (assume false)"
e_fe!(e_fe_set_vring_num_size_plus1, 8, 1280);
// @harness props=C01,C02,C03,C06,C08,C09,C10 tier=quick reach=off timeout=500 bound="Frontend::set_vring_num_body_cut_by_eof: all argument values, five 64-bit negotiation/limit words, NEED_REPLY on/off, peer reply header of one concrete class (conformant unless named in the harness), 40 symbolic body bytes, 0..=2 descriptors; one call" stubs="vmm-sys-util raw_recvmsg/raw_sendmsg (ghost stream socket), libc::close + OwnedFd::drop (ghost descriptor table), handle_alloc_error (assume false)"
e_fe!(e_fe_set_vring_num_body_cut_by_eof, 8, 1536);
// @harness props=C01,C02,C03,C06,C10 tier=quick reach=off timeout=500 bound="Frontend::set_vring_addr: all argument values, five 64-bit negotiation/limit words, NEED_REPLY on/off, peer reply header of one concrete class (conformant unless named in the harness), 40 symbolic body bytes, 0..=2 descriptors; one call" stubs="vmm-sys-util raw_recvmsg/raw_sendmsg (ghost stream socket), libc::close + OwnedFd::drop (ghost descriptor table), handle_alloc_error (assume false)"
e_fe!(e_fe_set_vring_addr, 9, 0);
// @harness props=C01,C02,C03,C06,C10 tier=thorough reach=off timeout=500 bound="Frontend::set_vring_base: all argument values, five 64-bit negotiation/limit words, NEED_REPLY on/off, peer reply header of one concrete class (conformant unless named in the harness), 40 symbolic body bytes, 0..=2 descriptors; one call" stubs="vmm-sys-util raw_recvmsg/raw_sendmsg (ghost stream socket), libc::close + OwnedFd::drop (ghost descriptor table), handle_alloc_error (assume false)"
e_fe!(e_fe_set_vring_base, 10, 0);
// @harness props=C01,C02,C03,C06,C10 tier=quick reach=off timeout=500 bound="Frontend::get_vring_base: all argument values, five 64-bit negotiation/limit words, NEED_REPLY on/off, peer reply header of one concrete class (conformant unless named in the harness), 40 symbolic body bytes, 0..=2 descriptors; one call" stubs="vmm-sys-util raw_recvmsg/raw_sendmsg (ghost stream socket), libc::close + OwnedFd::drop (ghost descriptor table), handle_alloc_error (assume false)"
e_fe!(e_fe_get_vring_base, 11, 0);
// @harness props=C01,C02,C03,C06,C09,C10 tier=quick reach=off timeout=500 bound="Frontend::set_vring_kick: all argument values, five 64-bit negotiation/limit words, NEED_REPLY on/off, peer reply header of one concrete class (conformant unless named in the harness), 40 symbolic body bytes, 0..=2 descriptors; one call" stubs="vmm-sys-util raw_recvmsg/raw_sendmsg (ghost stream socket), libc::close + OwnedFd::drop (ghost descriptor table), handle_alloc_error (assume false)"
e_fe!(e_fe_set_vring_kick, 12, 0);
// @harness props=C01,C02,C03,C06,C09,C10 tier=thorough reach=off timeout=500 bound="Frontend::set_vring_call: all argument values, five 64-bit negotiation/limit words, NEED_REPLY on/off, peer reply header of one concrete class (conformant unless named in the harness), 40 symbolic body bytes, 0..=2 descriptors; one call" stubs="vmm-sys-util raw_recvmsg/raw_sendmsg (ghost stream socket), libc::close + OwnedFd::drop (ghost descriptor table), handle_alloc_error (assume false)"
e_fe!(e_fe_set_vring_call, 13, 0);
// @harness props=C01,C02,C03,C06,C09,C10 tier=thorough reach=off timeout=500 bound="Frontend::set_vring_err: all argument values, five 64-bit negotiation/limit words, NEED_REPLY on/off, peer reply header of one concrete class (conformant unless named in the harness), 40 symbolic body bytes, 0..=2 descriptors; one call" stubs="vmm-sys-util raw_recvmsg/raw_sendmsg (ghost stream socket), libc::close + OwnedFd::drop (ghost descriptor table), handle_alloc_error (assume false)"
e_fe!(e_fe_set_vring_err, 14, 0);
// @harness props=C01,C02,C03,C06,C07,C10 tier=quick reach=off timeout=500 bound="Frontend::get_protocol_features: all argument values, five 64-bit negotiation/limit words, NEED_REPLY on/off, peer reply header of one concrete class (conformant unless named in the harness), 40 symbolic body bytes, 0..=2 descriptors; one call" stubs="vmm-sys-util raw_recvmsg/raw_sendmsg (ghost stream socket), libc::close + OwnedFd::drop (ghost descriptor table), handle_alloc_error (assume false)"
e_fe!(e_fe_get_protocol_features, 15, 0);
// @harness props=C01,C02,C03,C06,C07,C10 tier=quick reach=off timeout=500 bound="Frontend::set_protocol_features: all argument values, five 64-bit negotiation/limit words, NEED_REPLY on/off, peer reply header of one concrete class (conformant unless named in the harness), 40 symbolic body bytes, 0..=2 descriptors; one call" stubs="vmm-sys-util raw_recvmsg/raw_sendmsg (ghost stream socket), libc::close + OwnedFd::drop (ghost descriptor table), handle_alloc_error (assume false)"
e_fe!(e_fe_set_protocol_features, 16, 0);
// @harness props=C01,C02,C03,C06,C07,C10 tier=quick reach=off timeout=500 bound="Frontend::get_queue_num: all argument values, five 64-bit negotiation/limit words, NEED_REPLY on/off, peer reply header of one concrete class (conformant unless named in the harness), 40 symbolic body bytes, 0..=2 descriptors; one call" stubs="vmm-sys-util raw_recvmsg/raw_sendmsg (ghost stream socket), libc::close + OwnedFd::drop (ghost descriptor table), handle_alloc_error (assume false)"
e_fe!(e_fe_get_queue_num, 17, 0);
// @harness props=C01,C02,C03,C06,C07,C10 tier=quick reach=off timeout=500 bound="Frontend::set_vring_enable: all argument values, five 64-bit negotiation/limit words, NEED_REPLY on/off, peer reply header of one concrete class (conformant unless named in the harness), 40 symbolic body bytes, 0..=2 descriptors; one call" stubs="vmm-sys-util raw_recvmsg/raw_sendmsg (ghost stream socket), libc::close + OwnedFd::drop (ghost descriptor table), handle_alloc_error (assume false)"
e_fe!(e_fe_set_vring_enable, 18, 0);
// @harness props=C01,C02,C03,C06,C07,C09,C10 tier=thorough reach=off timeout=500 bound="Frontend::set_backend_req_fd: all argument values, five 64-bit negotiation/limit words, NEED_REPLY on/off, peer reply header of one concrete class (conformant unless named in the harness), 40 symbolic body bytes, 0..=2 descriptors; one call" stubs="vmm-sys-util raw_recvmsg/raw_sendmsg (ghost stream socket), libc::close + OwnedFd::drop (ghost descriptor table), handle_alloc_error (assume false)"
e_fe!(e_fe_set_backend_req_fd, 21, 0);
// @harness props=C01,C02,C03,C06,C07,C10 tier=quick reach=off timeout=500 bound="Frontend::set_config_len4: all argument values, five 64-bit negotiation/limit words, NEED_REPLY on/off, peer reply header of one concrete class (conformant unless named in the harness), 40 symbolic body bytes, 0..=2 descriptors; one call" stubs="vmm-sys-util raw_recvmsg/raw_sendmsg (ghost stream socket), libc::close + OwnedFd::drop (ghost descriptor table), handle_alloc_error (assume false)"
e_fe!(e_fe_set_config_len4, 25, 4);
// @harness props=C01,C02,C03,C06,C07,C10 tier=thorough reach=off timeout=500 bound="Frontend::set_config_len1: all argument values, five 64-bit negotiation/limit words, NEED_REPLY on/off, peer reply header of one concrete class (conformant unless named in the harness), 40 symbolic body bytes, 0..=2 descriptors; one call" stubs="vmm-sys-util raw_recvmsg/raw_sendmsg (ghost stream socket), libc::close + OwnedFd::drop (ghost descriptor table), handle_alloc_error (assume false)"
e_fe!(e_fe_set_config_len1, 25, 1);
// @harness props=C01,C02,C03,C06,C07,C10 tier=thorough reach=off timeout=500 bound="Frontend::set_config_len0: all argument values, five 64-bit negotiation/limit words, NEED_REPLY on/off, peer reply header of one concrete class (conformant unless named in the harness), 40 symbolic body bytes, 0..=2 descriptors; one call" stubs="vmm-sys-util raw_recvmsg/raw_sendmsg (ghost stream socket), libc::close + OwnedFd::drop (ghost descriptor table), handle_alloc_error (assume false)"
e_fe!(e_fe_set_config_len0, 25, 0);
// @harness props=C01,C02,C03,C06,C07,C09,C10 tier=quick reach=off timeout=500 bound="Frontend::get_inflight_fd: all argument values, five 64-bit negotiation/limit words, NEED_REPLY on/off, peer reply header of one concrete class (conformant unless named in the harness), 40 symbolic body bytes, 0..=2 descriptors; one call" stubs="vmm-sys-util raw_recvmsg/raw_sendmsg (ghost stream socket), libc::close + OwnedFd::drop (ghost descriptor table), handle_alloc_error (assume false)"
e_fe!(e_fe_get_inflight_fd, 31, 0);
// @harness props=C01,C02,C03,C06,C07,C09,C10 tier=thorough reach=off timeout=500 bound="Frontend::get_inflight_fd_foreign_code: all argument values, five 64-bit negotiation/limit words, NEED_REPLY on/off, peer reply header of one concrete class (conformant unless named in the harness), 40 symbolic body bytes, 0..=2 descriptors; one call" stubs="vmm-sys-util raw_recvmsg/raw_sendmsg (ghost stream socket), libc::close + OwnedFd::drop (ghost descriptor table), handle_alloc_error (assume false)"
e_fe!(e_fe_get_inflight_fd_foreign_code, 31, 256);
// @harness props=C01,C02,C03,C06,C07,C09,C10 tier=thorough reach=off timeout=500 bound="Frontend::get_inflight_fd_noreplyflag: all argument values, five 64-bit negotiation/limit words, NEED_REPLY on/off, peer reply header of one concrete class (conformant unless named in the harness), 40 symbolic body bytes, 0..=2 descriptors; one call" stubs="vmm-sys-util raw_recvmsg/raw_sendmsg (ghost stream socket), libc::close + OwnedFd::drop (ghost descriptor table), handle_alloc_error (assume false)"
e_fe!(e_fe_get_inflight_fd_noreplyflag, 31, 512);
// @harness props=C01,C02,C03,C06,C07,C09,C10 tier=thorough reach=off timeout=500 bound="Frontend::get_inflight_fd_version2: all argument values, five 64-bit negotiation/limit words, NEED_REPLY on/off, peer reply header of one concrete class (conformant unless named in the harness), 40 symbolic body bytes, 0..=2 descriptors; one call" stubs="vmm-sys-util raw_recvmsg/raw_sendmsg (ghost stream socket), libc::close + OwnedFd::drop (ghost descriptor table), handle_alloc_error (assume false)"
e_fe!(e_fe_get_inflight_fd_version2, 31, 768);
// @harness props=C01,C02,C03,C06,C07,C09,C10 tier=thorough reach=off timeout=500 bound="Frontend::get_inflight_fd_reservedbit: all argument values, five 64-bit negotiation/limit words, NEED_REPLY on/off, peer reply header of one concrete class (conformant unless named in the harness), 40 symbolic body bytes, 0..=2 descriptors; one call" stubs="vmm-sys-util raw_recvmsg/raw_sendmsg (ghost stream socket), libc::close + OwnedFd::drop (ghost descriptor table), handle_alloc_error (assume false)"
e_fe!(e_fe_get_inflight_fd_reservedbit, 31, 1024);
// @harness props=C01,C02,C03,C06,C07,C09,C10 tier=thorough reach=off timeout=500 bound="Frontend::get_inflight_fd_size_plus1: all argument values, five 64-bit negotiation/limit words, NEED_REPLY on/off, peer reply header of one concrete class (conformant unless named in the harness), 40 symbolic body bytes, 0..=2 descriptors; one call" stubs="vmm-sys-util raw_recvmsg/raw_sendmsg (ghost stream socket), libc::close + OwnedFd::drop (ghost descriptor table), handle_alloc_error (assume false)"
e_fe!(e_fe_get_inflight_fd_size_plus1, 31, 1280);
// @harness props=C01,C02,C03,C06,C07,C08,C09,C10 tier=thorough reach=off timeout=500 bound="Frontend::get_inflight_fd_body_cut_by_eof: all argument values, five 64-bit negotiation/limit words, NEED_REPLY on/off, peer reply header of one concrete class (conformant unless named in the harness), 40 symbolic body bytes, 0..=2 descriptors; one call" stubs="vmm-sys-util raw_recvmsg/raw_sendmsg (ghost stream socket), libc::close + OwnedFd::drop (ghost descriptor table), handle_alloc_error (assume false)"
e_fe!(e_fe_get_inflight_fd_body_cut_by_eof, 31, 1536);
// @harness props=C01,C02,C03,C06,C07,C09,C10 tier=thorough reach=off timeout=500 bound="Frontend::set_inflight_fd: all argument values, five 64-bit negotiation/limit words, NEED_REPLY on/off, peer reply header of one concrete class (conformant unless named in the harness), 40 symbolic body bytes, 0..=2 descriptors; one call" stubs="vmm-sys-util raw_recvmsg/raw_sendmsg (ghost stream socket), libc::close + OwnedFd::drop (ghost descriptor table), handle_alloc_error (assume false)"
e_fe!(e_fe_set_inflight_fd, 32, 0);
// @harness props=C01,C02,C03,C06,C07,C10 tier=thorough reach=off timeout=500 bound="Frontend::reset_device: all argument values, five 64-bit negotiation/limit words, NEED_REPLY on/off, peer reply header of one concrete class (conformant unless named in the harness), 40 symbolic body bytes, 0..=2 descriptors; one call" stubs="vmm-sys-util raw_recvmsg/raw_sendmsg (ghost stream socket), libc::close + OwnedFd::drop (ghost descriptor table), handle_alloc_error (assume false)"
e_fe!(e_fe_reset_device, 34, 0);
// @harness props=C01,C02,C03,C06,C07,C10 tier=thorough reach=off timeout=500 bound="Frontend::get_max_mem_slots: all argument values, five 64-bit negotiation/limit words, NEED_REPLY on/off, peer reply header of one concrete class (conformant unless named in the harness), 40 symbolic body bytes, 0..=2 descriptors; one call" stubs="vmm-sys-util raw_recvmsg/raw_sendmsg (ghost stream socket), libc::close + OwnedFd::drop (ghost descriptor table), handle_alloc_error (assume false)"
e_fe!(e_fe_get_max_mem_slots, 36, 0);
// @harness props=C01,C02,C03,C06,C07,C09,C10 tier=quick reach=off timeout=500 bound="Frontend::add_mem_reg: all argument values, five 64-bit negotiation/limit words, NEED_REPLY on/off, peer reply header of one concrete class (conformant unless named in the harness), 40 symbolic body bytes, 0..=2 descriptors; one call" stubs="vmm-sys-util raw_recvmsg/raw_sendmsg (ghost stream socket), libc::close + OwnedFd::drop (ghost descriptor table), handle_alloc_error (assume false)"
e_fe!(e_fe_add_mem_reg, 37, 0);
// @harness props=C01,C02,C03,C06,C07,C10 tier=thorough reach=off timeout=500 bound="Frontend::rem_mem_reg: all argument values, five 64-bit negotiation/limit words, NEED_REPLY on/off, peer reply header of one concrete class (conformant unless named in the harness), 40 symbolic body bytes, 0..=2 descriptors; one call" stubs="vmm-sys-util raw_recvmsg/raw_sendmsg (ghost stream socket), libc::close + OwnedFd::drop (ghost descriptor table), handle_alloc_error (assume false)"
e_fe!(e_fe_rem_mem_reg, 38, 0);
// @harness props=C01,C02,C03,C06,C07,C09,C10 tier=quick reach=off timeout=500 bound="Frontend::get_shared_object: all argument values, five 64-bit negotiation/limit words, NEED_REPLY on/off, peer reply header of one concrete class (conformant unless named in the harness), 40 symbolic body bytes, 0..=2 descriptors; one call" stubs="vmm-sys-util raw_recvmsg/raw_sendmsg (ghost stream socket), libc::close + OwnedFd::drop (ghost descriptor table), handle_alloc_error (assume false)"
e_fe!(e_fe_get_shared_object, 41, 0);
// @harness props=C01,C02,C03,C06,C07,C09,C10 tier=thorough reach=off timeout=500 bound="Frontend::get_shared_object_foreign_code: all argument values, five 64-bit negotiation/limit words, NEED_REPLY on/off, peer reply header of one concrete class (conformant unless named in the harness), 40 symbolic body bytes, 0..=2 descriptors; one call" stubs="vmm-sys-util raw_recvmsg/raw_sendmsg (ghost stream socket), libc::close + OwnedFd::drop (ghost descriptor table), handle_alloc_error (assume false)"
e_fe!(e_fe_get_shared_object_foreign_code, 41, 256);
// @harness props=C01,C02,C03,C06,C07,C09,C10 tier=thorough reach=off timeout=500 bound="Frontend::get_shared_object_noreplyflag: all argument values, five 64-bit negotiation/limit words, NEED_REPLY on/off, peer reply header of one concrete class (conformant unless named in the harness), 40 symbolic body bytes, 0..=2 descriptors; one call" stubs="vmm-sys-util raw_recvmsg/raw_sendmsg (ghost stream socket), libc::close + OwnedFd::drop (ghost descriptor table), handle_alloc_error (assume false)"
e_fe!(e_fe_get_shared_object_noreplyflag, 41, 512);
// @harness props=C01,C02,C03,C06,C07,C09,C10 tier=thorough reach=off timeout=500 bound="Frontend::get_shared_object_version2: all argument values, five 64-bit negotiation/limit words, NEED_REPLY on/off, peer reply header of one concrete class (conformant unless named in the harness), 40 symbolic body bytes, 0..=2 descriptors; one call" stubs="vmm-sys-util raw_recvmsg/raw_sendmsg (ghost stream socket), libc::close + OwnedFd::drop (ghost descriptor table), handle_alloc_error (assume false)"
e_fe!(e_fe_get_shared_object_version2, 41, 768);
// @harness props=C01,C02,C03,C06,C07,C09,C10 tier=thorough reach=off timeout=500 bound="Frontend::get_shared_object_reservedbit: all argument values, five 64-bit negotiation/limit words, NEED_REPLY on/off, peer reply header of one concrete class (conformant unless named in the harness), 40 symbolic body bytes, 0..=2 descriptors; one call" stubs="vmm-sys-util raw_recvmsg/raw_sendmsg (ghost stream socket), libc::close + OwnedFd::drop (ghost descriptor table), handle_alloc_error (assume false)"
e_fe!(e_fe_get_shared_object_reservedbit, 41, 1024);
// @harness props=C01,C02,C03,C06,C07,C09,C10 tier=thorough reach=off timeout=500 bound="Frontend::get_shared_object_size_plus1: all argument values, five 64-bit negotiation/limit words, NEED_REPLY on/off, peer reply header of one concrete class (conformant unless named in the harness), 40 symbolic body bytes, 0..=2 descriptors; one call" stubs="vmm-sys-util raw_recvmsg/raw_sendmsg (ghost stream socket), libc::close + OwnedFd::drop (ghost descriptor table), handle_alloc_error (assume false)"
e_fe!(e_fe_get_shared_object_size_plus1, 41, 1280);
// @harness props=C01,C02,C03,C06,C07,C08,C09,C10 tier=thorough reach=off timeout=500 bound="Frontend::get_shared_object_body_cut_by_eof: all argument values, five 64-bit negotiation/limit words, NEED_REPLY on/off, peer reply header of one concrete class (conformant unless named in the harness), 40 symbolic body bytes, 0..=2 descriptors; one call" stubs="vmm-sys-util raw_recvmsg/raw_sendmsg (ghost stream socket), libc::close + OwnedFd::drop (ghost descriptor table), handle_alloc_error (assume false)"
e_fe!(e_fe_get_shared_object_body_cut_by_eof, 41, 1536);
// @harness props=C01,C02,C03,C06,C07,C09,C10 tier=quick reach=off timeout=500 bound="Frontend::set_device_state_fd_file: all argument values, five 64-bit negotiation/limit words, NEED_REPLY on/off, peer reply header of one concrete class (conformant unless named in the harness), 40 symbolic body bytes, 0..=2 descriptors; one call" stubs="vmm-sys-util raw_recvmsg/raw_sendmsg (ghost stream socket), libc::close + OwnedFd::drop (ghost descriptor table), handle_alloc_error (assume false)"
e_fe!(e_fe_set_device_state_fd_file, 42, 0);
// @harness props=C01,C02,C03,C06,C07,C09,C10 tier=thorough reach=off timeout=500 bound="Frontend::set_device_state_fd_nofile: all argument values, five 64-bit negotiation/limit words, NEED_REPLY on/off, peer reply header of one concrete class (conformant unless named in the harness), 40 symbolic body bytes, 0..=2 descriptors; one call" stubs="vmm-sys-util raw_recvmsg/raw_sendmsg (ghost stream socket), libc::close + OwnedFd::drop (ghost descriptor table), handle_alloc_error (assume false)"
e_fe!(e_fe_set_device_state_fd_nofile, 42, 1);
// @harness props=C01,C02,C03,C06,C07,C10 tier=quick reach=off timeout=500 bound="Frontend::check_device_state: all argument values, five 64-bit negotiation/limit words, NEED_REPLY on/off, peer reply header of one concrete class (conformant unless named in the harness), 40 symbolic body bytes, 0..=2 descriptors; one call" stubs="vmm-sys-util raw_recvmsg/raw_sendmsg (ghost stream socket), libc::close + OwnedFd::drop (ghost descriptor table), handle_alloc_error (assume false)"
e_fe!(e_fe_check_device_state, 43, 0);
// @harness props=C01,C03,C06,C07 tier=quick reach=off timeout=500 bound="Frontend::get_config(offset 0x10, 4 bytes, WRITABLE): conformant reply with 4 payload bytes; request/reply payload bytes and negotiation words symbolic" stubs="vmm-sys-util raw_recvmsg/raw_sendmsg (ghost stream socket), libc::close + OwnedFd::drop (ghost descriptor table), handle_alloc_error (assume false)"
e_fe_cfg!(e_fe_get_config_reply, 0);
// @harness props=C01,C03,C06,C07 tier=quick reach=off timeout=500 bound="Frontend::get_config(offset 0x10, 4 bytes, WRITABLE): failure encoding: config header with size 0, no payload, peer stays connected; request/reply payload bytes and negotiation words symbolic" stubs="vmm-sys-util raw_recvmsg/raw_sendmsg (ghost stream socket), libc::close + OwnedFd::drop (ghost descriptor table), handle_alloc_error (assume false)"
e_fe_cfg!(e_fe_get_config_failure, 1);
// @harness props=C01,C03,C06,C07 tier=thorough reach=off timeout=500 bound="Frontend::get_config(offset 0x10, 4 bytes, WRITABLE): reply describing another offset; request/reply payload bytes and negotiation words symbolic" stubs="vmm-sys-util raw_recvmsg/raw_sendmsg (ghost stream socket), libc::close + OwnedFd::drop (ghost descriptor table), handle_alloc_error (assume false)"
e_fe_cfg!(e_fe_get_config_other_window, 2);
// @harness props=C01,C03,C06,C07,C08 tier=quick reach=off timeout=500 bound="Frontend::get_config(offset 0x10, 4 bytes, WRITABLE): conformant header and body, the stream ends 2 bytes into the 4-byte payload (peer closed); request/reply payload bytes and negotiation words symbolic" stubs="vmm-sys-util raw_recvmsg/raw_sendmsg (ghost stream socket), libc::close + OwnedFd::drop (ghost descriptor table), handle_alloc_error (assume false)"
e_fe_cfg!(e_fe_get_config_payload_cut_by_eof, 6);
// @harness props=C01,C03,C06,C07,C08 tier=quick reach=off timeout=500 bound="Frontend::get_config(offset 0x10, 4 bytes, WRITABLE): reply whose body claims 4 bytes but whose header size / wire carry only 2 payload bytes; request/reply payload bytes and negotiation words symbolic" stubs="vmm-sys-util raw_recvmsg/raw_sendmsg (ghost stream socket), libc::close + OwnedFd::drop (ghost descriptor table), handle_alloc_error (assume false)"
e_fe_cfg!(e_fe_get_config_short_payload, 4);
// @harness props=C01,C03,C06,C07,C08 tier=thorough reach=off timeout=500 bound="Frontend::get_config(offset 0x10, 4 bytes, WRITABLE): reply whose body claims 4 bytes but which carries no payload at all; request/reply payload bytes and negotiation words symbolic" stubs="vmm-sys-util raw_recvmsg/raw_sendmsg (ghost stream socket), libc::close + OwnedFd::drop (ghost descriptor table), handle_alloc_error (assume false)"
e_fe_cfg!(e_fe_get_config_no_payload, 5);
// @harness props=C01,C03,C06,C07 tier=thorough reach=off timeout=500 bound="Frontend::get_config(offset 0x10, 4 bytes, WRITABLE): reply whose config size field is 3; request/reply payload bytes and negotiation words symbolic" stubs="vmm-sys-util raw_recvmsg/raw_sendmsg (ghost stream socket), libc::close + OwnedFd::drop (ghost descriptor table), handle_alloc_error (assume false)"
e_fe_cfg!(e_fe_get_config_short_size, 3);
