// harnesses for vu_frontend
