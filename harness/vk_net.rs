// harnesses for vk_net
