// Child module of vhost::vhost_kern::net.  C19 for vhost-net.
use super::*;
use crate::vhost_kern::verif::*;
use std::os::unix::io::FromRawFd;

// @harness props=C19 tier=quick reach=off bound="Net::set_backend: all queue indexes, with/without tap descriptor" stubs="vmm_sys_util::ioctl::* (ghost kernel), sysconf"
k_proof! { fn c19_net_set_backend() {
    // SAFETY: descriptor numbers only
    let n = std::mem::ManuallyDrop::new(Net { fd: unsafe { File::from_raw_fd(KFD) }, mem: empty_mem() });
    let tap = std::mem::ManuallyDrop::new(unsafe { File::from_raw_fd(44) });
    let qi: usize = kani::any();
    let with: bool = kani::any();
    let r = n.set_backend(qi, if with { Some(&*tap) } else { None });
    expect_ioctl(uapi::U_VHOST_NET_SET_BACKEND, uapi::USZ_VRING_FILE);
    assert!(a32(uapi::UOFF_VRING_FILE_INDEX) == qi as u32);
    assert!(a32(uapi::UOFF_VRING_FILE_FD) == if with { 44 } else { u32::MAX }, "C19: -1 detaches the backend");
    assert!(r.is_ok());
    std::mem::forget(r);
} }
