// Independent transcription of the vhost-user / vhost-user-gpu wire format and
// validity rules.  Deliberately uses NO struct, constant or enum of the crate
// under test: only literal numbers and byte offsets.  This file is the trusted
// base of the oracles (DESIGN.md 3.3).

#[inline(always)]
pub fn rd16(b: &[u8], o: usize) -> u16 {
    (b[o] as u16) | ((b[o + 1] as u16) << 8)
}
#[inline(always)]
pub fn rd32(b: &[u8], o: usize) -> u32 {
    (b[o] as u32) | ((b[o + 1] as u32) << 8) | ((b[o + 2] as u32) << 16) | ((b[o + 3] as u32) << 24)
}
#[inline(always)]
pub fn rd64(b: &[u8], o: usize) -> u64 {
    (rd32(b, o) as u64) | ((rd32(b, o + 4) as u64) << 32)
}
#[inline(always)]
pub fn wr16(b: &mut [u8], o: usize, v: u16) {
    b[o] = v as u8;
    b[o + 1] = (v >> 8) as u8;
}
#[inline(always)]
pub fn wr32(b: &mut [u8], o: usize, v: u32) {
    b[o] = v as u8;
    b[o + 1] = (v >> 8) as u8;
    b[o + 2] = (v >> 16) as u8;
    b[o + 3] = (v >> 24) as u8;
}
#[inline(always)]
pub fn wr64(b: &mut [u8], o: usize, v: u64) {
    wr32(b, o, v as u32);
    wr32(b, o + 4, (v >> 32) as u32);
}

// ---------------------------------------------------------------- header --
pub const HDR_SIZE: usize = 12;
pub const F_VERSION_MASK: u32 = 0x3;
pub const F_VERSION_1: u32 = 0x1;
pub const F_REPLY: u32 = 0x4;
pub const F_NEED_REPLY: u32 = 0x8;
pub const MAX_MSG: u32 = 4096;

pub const FRONTEND_REQ_MIN: u32 = 1;
pub const FRONTEND_REQ_MAX: u32 = 44;
pub const BACKEND_REQ_MIN: u32 = 1;
pub const BACKEND_REQ_MAX: u32 = 10;
pub const GPU_REQ_MIN: u32 = 1;
pub const GPU_REQ_MAX: u32 = 12;

pub fn frontend_code_known(c: u32) -> bool {
    c >= FRONTEND_REQ_MIN && c <= FRONTEND_REQ_MAX
}
pub fn backend_code_known(c: u32) -> bool {
    c >= BACKEND_REQ_MIN && c <= BACKEND_REQ_MAX
}
pub fn gpu_code_known(c: u32) -> bool {
    c >= GPU_REQ_MIN && c <= GPU_REQ_MAX
}

/// Header validity (C20): known request code, size <= 4096, version 1, no reserved flag bits.
pub fn valid_header(code_known: bool, flags: u32, size: u32) -> bool {
    code_known && size <= MAX_MSG && (flags & F_VERSION_MASK) == F_VERSION_1 && (flags & !0xfu32) == 0
}
/// GPU header validity: known code, only the REPLY bit may be set.
pub fn valid_gpu_header(code: u32, flags: u32) -> bool {
    gpu_code_known(code) && (flags & !F_REPLY) == 0
}

// frontend request numbers (vhost-user spec, "Front-end message types")
pub mod fe {
    pub const GET_FEATURES: u32 = 1;
    pub const SET_FEATURES: u32 = 2;
    pub const SET_OWNER: u32 = 3;
    pub const RESET_OWNER: u32 = 4;
    pub const SET_MEM_TABLE: u32 = 5;
    pub const SET_LOG_BASE: u32 = 6;
    pub const SET_LOG_FD: u32 = 7;
    pub const SET_VRING_NUM: u32 = 8;
    pub const SET_VRING_ADDR: u32 = 9;
    pub const SET_VRING_BASE: u32 = 10;
    pub const GET_VRING_BASE: u32 = 11;
    pub const SET_VRING_KICK: u32 = 12;
    pub const SET_VRING_CALL: u32 = 13;
    pub const SET_VRING_ERR: u32 = 14;
    pub const GET_PROTOCOL_FEATURES: u32 = 15;
    pub const SET_PROTOCOL_FEATURES: u32 = 16;
    pub const GET_QUEUE_NUM: u32 = 17;
    pub const SET_VRING_ENABLE: u32 = 18;
    pub const SEND_RARP: u32 = 19;
    pub const NET_SET_MTU: u32 = 20;
    pub const SET_BACKEND_REQ_FD: u32 = 21;
    pub const IOTLB_MSG: u32 = 22;
    pub const SET_VRING_ENDIAN: u32 = 23;
    pub const GET_CONFIG: u32 = 24;
    pub const SET_CONFIG: u32 = 25;
    pub const CREATE_CRYPTO_SESSION: u32 = 26;
    pub const CLOSE_CRYPTO_SESSION: u32 = 27;
    pub const POSTCOPY_ADVISE: u32 = 28;
    pub const POSTCOPY_LISTEN: u32 = 29;
    pub const POSTCOPY_END: u32 = 30;
    pub const GET_INFLIGHT_FD: u32 = 31;
    pub const SET_INFLIGHT_FD: u32 = 32;
    pub const GPU_SET_SOCKET: u32 = 33;
    pub const RESET_DEVICE: u32 = 34;
    pub const VRING_KICK: u32 = 35;
    pub const GET_MAX_MEM_SLOTS: u32 = 36;
    pub const ADD_MEM_REG: u32 = 37;
    pub const REM_MEM_REG: u32 = 38;
    pub const SET_STATUS: u32 = 39;
    pub const GET_STATUS: u32 = 40;
    pub const GET_SHARED_OBJECT: u32 = 41;
    pub const SET_DEVICE_STATE_FD: u32 = 42;
    pub const CHECK_DEVICE_STATE: u32 = 43;
    pub const GET_SHMEM_CONFIG: u32 = 44;
}
// backend request numbers ("Back-end message types")
pub mod be {
    pub const IOTLB_MSG: u32 = 1;
    pub const CONFIG_CHANGE_MSG: u32 = 2;
    pub const VRING_HOST_NOTIFIER_MSG: u32 = 3;
    pub const VRING_CALL: u32 = 4;
    pub const VRING_ERR: u32 = 5;
    pub const SHARED_OBJECT_ADD: u32 = 6;
    pub const SHARED_OBJECT_REMOVE: u32 = 7;
    pub const SHARED_OBJECT_LOOKUP: u32 = 8;
    pub const SHMEM_MAP: u32 = 9;
    pub const SHMEM_UNMAP: u32 = 10;
}
// vhost-user-gpu request numbers
pub mod gpu {
    pub const GET_PROTOCOL_FEATURES: u32 = 1;
    pub const SET_PROTOCOL_FEATURES: u32 = 2;
    pub const GET_DISPLAY_INFO: u32 = 3;
    pub const CURSOR_POS: u32 = 4;
    pub const CURSOR_POS_HIDE: u32 = 5;
    pub const CURSOR_UPDATE: u32 = 6;
    pub const SCANOUT: u32 = 7;
    pub const UPDATE: u32 = 8;
    pub const DMABUF_SCANOUT: u32 = 9;
    pub const DMABUF_UPDATE: u32 = 10;
    pub const GET_EDID: u32 = 11;
    pub const DMABUF_SCANOUT2: u32 = 12;
}

// virtio feature bit carrying "protocol features supported"
pub const VIRTIO_F_PROTOCOL_FEATURES: u64 = 1 << 30;
pub const VIRTIO_F_LOG_ALL: u64 = 1 << 26;
// protocol feature bit numbers
pub mod pf {
    pub const MQ: u64 = 1 << 0;
    pub const LOG_SHMFD: u64 = 1 << 1;
    pub const RARP: u64 = 1 << 2;
    pub const REPLY_ACK: u64 = 1 << 3;
    pub const MTU: u64 = 1 << 4;
    pub const BACKEND_REQ: u64 = 1 << 5;
    pub const CROSS_ENDIAN: u64 = 1 << 6;
    pub const CRYPTO_SESSION: u64 = 1 << 7;
    pub const PAGEFAULT: u64 = 1 << 8;
    pub const CONFIG: u64 = 1 << 9;
    pub const BACKEND_SEND_FD: u64 = 1 << 10;
    pub const HOST_NOTIFIER: u64 = 1 << 11;
    pub const INFLIGHT_SHMFD: u64 = 1 << 12;
    pub const RESET_DEVICE: u64 = 1 << 13;
    pub const INBAND_NOTIFICATIONS: u64 = 1 << 14;
    pub const CONFIGURE_MEM_SLOTS: u64 = 1 << 15;
    pub const STATUS: u64 = 1 << 16;
    pub const XEN_MMAP: u64 = 1 << 17;
    pub const SHARED_OBJECT: u64 = 1 << 18;
    pub const DEVICE_STATE: u64 = 1 << 19;
    pub const GET_VRING_BASE_INFLIGHT: u64 = 1 << 20;
    pub const SHMEM: u64 = 1 << 21;
}

// ------------------------------------------------------- payload layouts --
pub const SZ_U64: usize = 8;
pub const SZ_VRING_STATE: usize = 8; // u32 index, u32 num
pub const SZ_VRING_ADDR: usize = 40; // u32 index, u32 flags, u64 desc, u64 used, u64 avail, u64 log
pub const SZ_MEMORY: usize = 8; // u32 nregions, u32 padding
pub const SZ_MEM_REGION: usize = 32; // u64 gpa, u64 size, u64 user, u64 mmap_off
pub const SZ_SINGLE_REGION: usize = 40; // u64 padding, region
pub const SZ_CONFIG: usize = 12; // u32 offset, u32 size, u32 flags
pub const SZ_INFLIGHT: usize = 24; // u64 mmap_size, u64 mmap_off, u16 nq, u16 qsize (+4 pad)
pub const SZ_LOG: usize = 16; // u64 size, u64 offset
pub const SZ_SHARED: usize = 16; // uuid
pub const SZ_DEVSTATE: usize = 8; // u32 direction, u32 phase
pub const SZ_MMAP: usize = 40; // u8 shmid, u8 pad[7], u64 fd_off, u64 shm_off, u64 len, u64 flags
pub const SZ_SHMEM_CONFIG: usize = 2056; // u32 n, u32 pad, u64 sizes[256]

pub const SZ_GPU_CURSOR_POS: usize = 12;
pub const SZ_GPU_CURSOR_UPDATE: usize = 20;
pub const SZ_GPU_SCANOUT: usize = 12;
pub const SZ_GPU_UPDATE: usize = 20;
pub const SZ_GPU_DMABUF_SCANOUT: usize = 40;
pub const SZ_GPU_DMABUF_SCANOUT2: usize = 48;
pub const SZ_GPU_EDID_REQ: usize = 4;
pub const SZ_GPU_CTRL_HDR: usize = 24;
pub const SZ_GPU_DISPLAY_INFO: usize = 408;
pub const SZ_GPU_RESP_EDID: usize = 1056;

fn no_wrap(a: u64, b: u64) -> bool {
    (a as u128) + (b as u128) <= (u64::MAX as u128)
}

/// memory table header: zero padding, 1..=32 regions
pub fn valid_memory(b: &[u8]) -> bool {
    let n = rd32(b, 0);
    rd32(b, 4) == 0 && n >= 1 && n <= 32
}
/// region: non-zero size, no wrap of guest, user, mmap range
pub fn valid_region(b: &[u8], o: usize) -> bool {
    let gpa = rd64(b, o);
    let size = rd64(b, o + 8);
    let user = rd64(b, o + 16);
    let off = rd64(b, o + 24);
    size != 0 && no_wrap(gpa, size) && no_wrap(user, size) && no_wrap(off, size)
}
/// single region message: same rules for the region at offset 8
pub fn valid_single_region(b: &[u8]) -> bool {
    valid_region(b, 8)
}
/// ring addresses: only LOG flag (bit 0), desc aligned 16, avail 2, used 4
pub fn valid_vring_addr(b: &[u8]) -> bool {
    let flags = rd32(b, 4);
    let desc = rd64(b, 8);
    let used = rd64(b, 16);
    let avail = rd64(b, 24);
    (flags & !1u32) == 0 && desc % 16 == 0 && avail % 2 == 0 && used % 4 == 0
}
/// config: size >= 1, offset+size <= 0x1000 without 32-bit wrap, flags within {WRITABLE=1, LIVE_MIGRATION=2}
pub fn valid_config(b: &[u8]) -> bool {
    let off = rd32(b, 0) as u64;
    let size = rd32(b, 4) as u64;
    let flags = rd32(b, 8);
    size >= 1 && off + size <= 0x1000 && (flags & !3u32) == 0
}
pub fn valid_inflight(b: &[u8]) -> bool {
    rd16(b, 16) != 0 && rd16(b, 18) != 0
}
pub fn valid_log(b: &[u8]) -> bool {
    let size = rd64(b, 0);
    let off = rd64(b, 8);
    size != 0 && no_wrap(off, size)
}
pub fn valid_devstate(b: &[u8]) -> bool {
    let dir = rd32(b, 0);
    let phase = rd32(b, 4);
    (dir == 0 || dir == 1) && phase == 0
}
pub fn valid_shared(b: &[u8]) -> bool {
    let lo = rd64(b, 0);
    let hi = rd64(b, 8);
    !(lo == 0 && hi == 0) && !(lo == u64::MAX && hi == u64::MAX)
}
pub fn valid_mmap(b: &[u8]) -> bool {
    let fd_off = rd64(b, 8);
    let shm_off = rd64(b, 16);
    let len = rd64(b, 24);
    let flags = rd64(b, 32);
    len != 0 && no_wrap(fd_off, len) && no_wrap(shm_off, len) && (flags & !1u64) == 0
}

// -------------------------------------------------- reply / ack rule table --
/// Payload size of the reply the protocol defines for a frontend request, if any
/// (None = the request has no defined reply; it is acknowledged only under REPLY_ACK+NEED_REPLY).
/// GET_CONFIG's size depends on the request and is handled separately.
pub fn reply_size(code: u32) -> Option<usize> {
    match code {
        fe::GET_FEATURES | fe::GET_PROTOCOL_FEATURES | fe::GET_QUEUE_NUM | fe::GET_MAX_MEM_SLOTS => Some(SZ_U64),
        fe::GET_VRING_BASE => Some(SZ_VRING_STATE),
        fe::GET_INFLIGHT_FD => Some(SZ_INFLIGHT),
        fe::GET_SHARED_OBJECT => Some(0),
        fe::POSTCOPY_ADVISE => Some(0),
        fe::SET_DEVICE_STATE_FD | fe::CHECK_DEVICE_STATE => Some(SZ_U64),
        fe::GET_SHMEM_CONFIG => Some(SZ_SHMEM_CONFIG),
        fe::SET_LOG_BASE => Some(SZ_LOG),
        _ => None,
    }
}
/// reply-ack is in force iff PROTOCOL_FEATURES was offered and REPLY_ACK acknowledged
pub fn reply_ack_on(offered_virtio: u64, acked_proto: u64) -> bool {
    (offered_virtio & VIRTIO_F_PROTOCOL_FEATURES) != 0 && (acked_proto & pf::REPLY_ACK) != 0
}
/// Which protocol feature (acked) gates a frontend request on the backend side; 0 = none.
pub fn gating_proto_feature(code: u32) -> u64 {
    match code {
        fe::GET_QUEUE_NUM => pf::MQ,
        fe::GET_CONFIG | fe::SET_CONFIG => pf::CONFIG,
        fe::SET_BACKEND_REQ_FD => pf::BACKEND_REQ,
        fe::GET_INFLIGHT_FD | fe::SET_INFLIGHT_FD => pf::INFLIGHT_SHMFD,
        fe::GET_MAX_MEM_SLOTS | fe::ADD_MEM_REG | fe::REM_MEM_REG => pf::CONFIGURE_MEM_SLOTS,
        fe::RESET_DEVICE => pf::RESET_DEVICE,
        fe::GET_SHARED_OBJECT => pf::SHARED_OBJECT,
        fe::GET_SHMEM_CONFIG => pf::SHMEM,
        fe::SET_LOG_BASE => pf::LOG_SHMFD,
        fe::POSTCOPY_ADVISE | fe::POSTCOPY_LISTEN | fe::POSTCOPY_END => pf::PAGEFAULT,
        _ => 0,
    }
}
/// Number of descriptors a frontend request must carry: Some(n) exact, None = depends on body.
pub fn required_fds(code: u32) -> Option<usize> {
    match code {
        fe::SET_MEM_TABLE | fe::SET_VRING_KICK | fe::SET_VRING_CALL | fe::SET_VRING_ERR => None,
        fe::SET_LOG_BASE | fe::SET_LOG_FD | fe::SET_BACKEND_REQ_FD | fe::SET_INFLIGHT_FD
        | fe::ADD_MEM_REG | fe::SET_DEVICE_STATE_FD | fe::GPU_SET_SOCKET => Some(1),
        _ => Some(0),
    }
}
