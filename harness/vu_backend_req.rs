// harnesses for vu_backend_req
