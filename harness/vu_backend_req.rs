// Child module of vhost::vhost_user::backend_req (the backend-to-frontend request proxy `Backend`).
//
// C18 (proxy half), C01 (backend-initiated requests on the wire), C06 (ack parsing), C07 (proxy refuses
// shared-object / shared-memory requests until enabled), C10 (lock held across request + ack).
use super::*;
use crate::vhost_user::verif::ghost as g;
use crate::vhost_user::verif::spec;
use crate::vhost_user::verif::spec::be;
use std::mem::ManuallyDrop;
use std::os::unix::io::FromRawFd;

const LENT_FD: RawFd = 70;

static mut NODE_PTR: (*const Mutex<BackendInternal>, u64) = (std::ptr::null(), 0x51c0_77aa_0003_c10c);
static mut LOCK_FREE_AT_SYSCALL: (bool, u64) = (false, 0x51c0_77aa_0004_c10c);
fn c10_probe() {
    // SAFETY: single-threaded harness
    unsafe {
        if !NODE_PTR.0.is_null() {
            if let Ok(guard) = (*NODE_PTR.0).try_lock() {
                LOCK_FREE_AT_SYSCALL.0 = true;
                drop(guard);
            }
        }
    }
}
unsafe fn px_recvmsg(fd: RawFd, iovecs: &mut [libc::iovec], in_fds: &mut [RawFd]) -> vmm_sys_util::errno::Result<(usize, usize)> {
    c10_probe();
    g::note_recv();
    g::ghost_recvmsg(fd, iovecs, in_fds)
}
fn px_sendmsg<D: vmm_sys_util::sock_ctrl_msg::IntoIovec>(fd: RawFd, out_data: &[D], out_fds: &[RawFd]) -> vmm_sys_util::errno::Result<usize> {
    c10_probe();
    // SAFETY: single-threaded harness
    unsafe { g::note_send() };
    g::ghost_sendmsg(fd, out_data, out_fds)
}

/// stub for `impl From<vhost_user::Error> for io::Error` (io::Error::other(e)): the boxed custom error makes
/// io::Error's bit-packed representation opaque to CBMC and every later drop explores the mutually recursive
/// drop glue of io::Error <-> vhost_user::Error (measured: OOM at 14 GB).  Only Ok/Err matters to the proxy's
/// callers here, so the conversion keeps the kind and drops the payload.
fn cheap_error(e: Error) -> io::Error {
    std::mem::forget(e);
    io::Error::from(io::ErrorKind::Other)
}

/// `op`: backend request code (6..=10); `class`: ack header class (0 conformant, 1 foreign code,
/// 2 REPLY bit missing, 3 version 2) - concrete per harness, see vu_frontend.rs for why.
fn e_proxy(op: u32, class: usize, fl: u8) {
    // SAFETY: descriptor 5 is never used for real I/O
    let b = ManuallyDrop::new(Backend::from_stream(unsafe { UnixStream::from_raw_fd(5) }));
    // the three negotiated flags are concrete per harness (bit 0 reply-ack, bit 1 shared-object, bit 2 shmem):
    // symbolic flags multiply the error paths, each of which builds a boxed io::Error (see cheap_error)
    let reply_ack: bool = fl & 1 != 0;
    let so: bool = fl & 2 != 0;
    let shm: bool = fl & 4 != 0;
    b.set_reply_ack_flag(reply_ack);
    b.set_shared_object_flag(so);
    b.set_shmem_flag(shm);
    let body: [u8; 40] = kani::any();
    let ack_val: u64 = kani::any();
    let nfds: usize = kani::any();
    kani::assume(nfds <= 1);
    // SAFETY: ghost state
    unsafe {
        NODE_PTR.0 = Arc::as_ptr(&b.inner);
        g::G.lent_lo = LENT_FD;
        g::G.lent_hi = LENT_FD + 1;
        let code = if class == 1 { op + 1 } else { op };
        let flags = match class { 2 => 0x1, 3 => 0x6, _ => 0x5 };
        g::put_hdr(0, code, flags, 8);
        g::put64(12, ack_val);
        g::G.rx_len = 20;
        g::G.rx_closed = false;
        g::G.rx_nfds = nfds;
    }
    let ev = ManuallyDrop::new(unsafe { std::fs::File::from_raw_fd(LENT_FD) });
    let (r, size, gate, with_fd) = match op {
        be::SHARED_OBJECT_ADD | be::SHARED_OBJECT_REMOVE | be::SHARED_OBJECT_LOOKUP => {
            let mut ub = [0u8; 16];
            ub.copy_from_slice(&body[..16]);
            let m = VhostUserSharedMsg { uuid: uuid::Uuid::from_bytes(ub) };
            let r = match op {
                be::SHARED_OBJECT_ADD => b.shared_object_add(&m),
                be::SHARED_OBJECT_REMOVE => b.shared_object_remove(&m),
                _ => b.shared_object_lookup(&m, &*ev),
            };
            (r, 16usize, so, op == be::SHARED_OBJECT_LOOKUP)
        }
        _ => {
            let mut pad = [0u8; 7];
            pad.copy_from_slice(&body[1..8]);
            let m = VhostUserMMap {
                shmid: body[0], padding: pad, fd_offset: spec::rd64(&body, 8), shm_offset: spec::rd64(&body, 16),
                len: spec::rd64(&body, 24), flags: spec::rd64(&body, 32),
            };
            let r = if op == be::SHMEM_MAP { b.shmem_map(&m, &*ev) } else { b.shmem_unmap(&m) };
            (r, 40usize, shm, op == be::SHMEM_MAP)
        }
    };
    let ok = r.is_ok();
    let okval = if let Ok(v) = &r { *v } else { 1 };
    std::mem::forget(r);
    kani::cover!(if !gate { !ok } else if class == 0 { ok } else { !ok }, "witness: request succeeds / is refused (gate) / foreign ack is refused");
    // SAFETY: ghost state
    unsafe {
        if !gate {
            assert!(!ok && g::G.tx_len == 0 && g::G.rx_calls == 0, "C07/C18: request refused until the feature is enabled, nothing on the wire");
        } else {
            // C01/C18: the request as the specification encodes it
            assert!(g::tx32(0) == op, "C01: backend request code");
            assert!(g::tx32(4) == (spec::F_VERSION_1 | if reply_ack { spec::F_NEED_REPLY } else { 0 }), "C18: NEED_REPLY iff reply-ack negotiated");
            assert!(g::tx32(8) == size as u32 && g::G.tx_len == 12 + size, "C01: size = payload");
            assert!(g::tx64(12) == spec::rd64(&body, 0) && g::tx64(20) == spec::rd64(&body, 8), "C01/C18: body bytes equal the arguments");
            if size == 40 {
                assert!(g::tx64(28) == spec::rd64(&body, 16) && g::tx64(36) == spec::rd64(&body, 24) && g::tx64(44) == spec::rd64(&body, 32));
            }
            assert!(g::G.tx_first_nfds == with_fd as usize && (!with_fd || g::G.tx_first_fd0 == LENT_FD) && !g::G.tx_late_fds, "C18: descriptor where the request defines one");
            assert!(!g::G.blocked, "C18: no indefinite wait");
            if !reply_ack {
                assert!(g::G.rx_calls == 0 && ok && okval == 0, "C18: without REPLY_ACK no acknowledgement is awaited");
            } else {
                let conformant = class == 0 && nfds == 0;
                if ok {
                    assert!(conformant && ack_val == 0 && okval == 0, "C18/C06: success only for a zero ack that answers this request");
                }
                if conformant {
                    assert!(ok == (ack_val == 0), "C18: the call succeeds iff the handler returned zero");
                }
            }
        }
        assert!(!g::G.lent_closed, "C09: lent descriptor closed");
        assert!(!LOCK_FREE_AT_SYSCALL.0, "C10: proxy lock free during a socket call of the transaction");
        assert!(!g::G.lock_retaken, "C10: the proxy lock was released and taken again between a request and the reading of its reply");
        assert!((*NODE_PTR.0).try_lock().is_ok(), "C10: proxy lock released on return");
    }
}

macro_rules! e_px {
    ($name:ident, $op:expr, $class:expr, $fl:expr) => {
        #[kani::proof]
        #[kani::unwind(5)]
        #[kani::stub(vmm_sys_util::sock_ctrl_msg::raw_recvmsg, px_recvmsg)]
        #[kani::stub(vmm_sys_util::sock_ctrl_msg::raw_sendmsg, px_sendmsg)]
        #[kani::stub(std::sync::Mutex::lock, g::ghost_mutex_lock)]
        #[kani::stub(libc::close, g::ghost_close)]
        #[kani::stub(<std::os::fd::OwnedFd as std::ops::Drop>::drop, g::ghost_ownedfd_drop)]
        #[kani::stub(std::alloc::handle_alloc_error, g::ghost_alloc_error)]
        #[kani::stub(<std::io::Error as std::convert::From<Error>>::from, cheap_error)]
        fn $name() {
            e_proxy($op, $class, $fl)
        }
    };
}

// @harness props=C18,C01,C06,C07,C10 tier=quick reach=off timeout=500 bound="Backend::shared_object_add: all argument bytes; REPLY_ACK not negotiated: no acknowledgement written or awaited; conformant ack header" stubs="raw_recvmsg/raw_sendmsg (ghost socket + lock probe), OwnedFd::drop, handle_alloc_error, From<vhost_user::Error> for io::Error (payload dropped)"
e_px!(e_px_shared_object_add_noack, 6, 0, 2);
// @harness props=C18,C01,C06,C07,C10 tier=quick reach=off timeout=500 bound="Backend::shared_object_add: all argument bytes; feature flag not set: refused, nothing on the wire; conformant ack header" stubs="raw_recvmsg/raw_sendmsg (ghost socket + lock probe), OwnedFd::drop, handle_alloc_error, From<vhost_user::Error> for io::Error (payload dropped)"
e_px!(e_px_shared_object_add_gated, 6, 0, 1);
// @harness props=C18,C01,C06,C07,C10 tier=quick reach=off timeout=500 bound="Backend::shared_object_remove: all argument bytes; REPLY_ACK not negotiated: no acknowledgement written or awaited; conformant ack header" stubs="raw_recvmsg/raw_sendmsg (ghost socket + lock probe), OwnedFd::drop, handle_alloc_error, From<vhost_user::Error> for io::Error (payload dropped)"
e_px!(e_px_shared_object_remove_noack, 7, 0, 2);
// @harness props=C18,C01,C06,C07,C10 tier=quick reach=off timeout=500 bound="Backend::shared_object_remove: all argument bytes; feature flag not set: refused, nothing on the wire; conformant ack header" stubs="raw_recvmsg/raw_sendmsg (ghost socket + lock probe), OwnedFd::drop, handle_alloc_error, From<vhost_user::Error> for io::Error (payload dropped)"
e_px!(e_px_shared_object_remove_gated, 7, 0, 1);
// @harness props=C18,C01,C06,C07,C10,C09 tier=quick reach=off timeout=500 bound="Backend::shared_object_lookup: all argument bytes; REPLY_ACK not negotiated: no acknowledgement written or awaited; conformant ack header" stubs="raw_recvmsg/raw_sendmsg (ghost socket + lock probe), OwnedFd::drop, handle_alloc_error, From<vhost_user::Error> for io::Error (payload dropped)"
e_px!(e_px_shared_object_lookup_noack, 8, 0, 2);
// @harness props=C18,C01,C06,C07,C10,C09 tier=quick reach=off timeout=500 bound="Backend::shared_object_lookup: all argument bytes; feature flag not set: refused, nothing on the wire; conformant ack header" stubs="raw_recvmsg/raw_sendmsg (ghost socket + lock probe), OwnedFd::drop, handle_alloc_error, From<vhost_user::Error> for io::Error (payload dropped)"
e_px!(e_px_shared_object_lookup_gated, 8, 0, 1);
// @harness props=C18,C01,C06,C07,C10,C09 tier=quick reach=off timeout=500 bound="Backend::shmem_map: all argument bytes; REPLY_ACK not negotiated: no acknowledgement written or awaited; conformant ack header" stubs="raw_recvmsg/raw_sendmsg (ghost socket + lock probe), OwnedFd::drop, handle_alloc_error, From<vhost_user::Error> for io::Error (payload dropped)"
e_px!(e_px_shmem_map_noack, 9, 0, 4);
// @harness props=C18,C01,C06,C07,C10,C09 tier=quick reach=off timeout=500 bound="Backend::shmem_map: all argument bytes; feature flag not set: refused, nothing on the wire; conformant ack header" stubs="raw_recvmsg/raw_sendmsg (ghost socket + lock probe), OwnedFd::drop, handle_alloc_error, From<vhost_user::Error> for io::Error (payload dropped)"
e_px!(e_px_shmem_map_gated, 9, 0, 1);
// @harness props=C18,C01,C06,C07,C10 tier=quick reach=off timeout=500 bound="Backend::shmem_unmap: all argument bytes; REPLY_ACK not negotiated: no acknowledgement written or awaited; conformant ack header" stubs="raw_recvmsg/raw_sendmsg (ghost socket + lock probe), OwnedFd::drop, handle_alloc_error, From<vhost_user::Error> for io::Error (payload dropped)"
e_px!(e_px_shmem_unmap_noack, 10, 0, 4);
// @harness props=C18,C01,C06,C07,C10 tier=quick reach=off timeout=500 bound="Backend::shmem_unmap: all argument bytes; feature flag not set: refused, nothing on the wire; conformant ack header" stubs="raw_recvmsg/raw_sendmsg (ghost socket + lock probe), OwnedFd::drop, handle_alloc_error, From<vhost_user::Error> for io::Error (payload dropped)"
e_px!(e_px_shmem_unmap_gated, 10, 0, 1);
// @harness props=C18,C01,C06,C10 tier=quick reach=off timeout=900 mem=24 bound="Backend::shared_object_add through the public method with REPLY_ACK: all argument bytes, conformant ack header, ack value and 0..=1 descriptors symbolic" stubs="raw_recvmsg/raw_sendmsg (ghost socket + lock probe), Mutex::lock (acquisition counter, self-deadlock detector), OwnedFd::drop, close, handle_alloc_error, From<vhost_user::Error> for io::Error (payload dropped)"
e_px!(e_px_shared_object_add_ack, 6, 0, 3);
// @harness props=C18,C06,C10 tier=thorough reach=off timeout=900 mem=24 bound="Backend::shared_object_add with REPLY_ACK answered with another request's code" stubs="raw_recvmsg/raw_sendmsg (ghost socket + lock probe), Mutex::lock (acquisition counter, self-deadlock detector), OwnedFd::drop, close, handle_alloc_error, From<vhost_user::Error> for io::Error (payload dropped)"
e_px!(e_px_shared_object_add_ack_foreign, 6, 1, 3);
// @harness props=C18,C01,C06,C10,C09 tier=quick reach=off timeout=900 mem=24 bound="Backend::shmem_map through the public method with REPLY_ACK: all argument bytes, conformant ack header, ack value and 0..=1 descriptors symbolic" stubs="raw_recvmsg/raw_sendmsg (ghost socket + lock probe), Mutex::lock (acquisition counter, self-deadlock detector), OwnedFd::drop, close, handle_alloc_error, From<vhost_user::Error> for io::Error (payload dropped)"
e_px!(e_px_shmem_map_ack, 9, 0, 5);
// @harness props=C18,C06,C10 tier=thorough reach=off timeout=900 mem=24 bound="Backend::shmem_unmap with REPLY_ACK answered without the REPLY flag" stubs="raw_recvmsg/raw_sendmsg (ghost socket + lock probe), Mutex::lock (acquisition counter, self-deadlock detector), OwnedFd::drop, close, handle_alloc_error, From<vhost_user::Error> for io::Error (payload dropped)"
e_px!(e_px_shmem_unmap_ack_noreplyflag, 10, 2, 5);
// @harness props=C18,C01,C06,C10,C09 tier=thorough reach=off timeout=900 mem=24 bound="Backend::shared_object_lookup through the public method with REPLY_ACK" stubs="raw_recvmsg/raw_sendmsg (ghost socket + lock probe), Mutex::lock (acquisition counter, self-deadlock detector), OwnedFd::drop, close, handle_alloc_error, From<vhost_user::Error> for io::Error (payload dropped)"
e_px!(e_px_shared_object_lookup_ack, 8, 0, 3);

// ---- acknowledged requests at unit level: BackendInternal::send_message / wait_for_ack on an endpoint built
// on the stack.  (Through the public methods the ack path converts every vhost_user::Error into a boxed
// io::Error; CBMC ran out of memory on that - 14 and 40 GB - even with the conversion stubbed.  The public
// wrappers are covered by the *_noack / *_gated harnesses above; what they add to this function is
// `Ok(guard.send_message(..)?)`.)
fn u_proxy_ack(op: u32, class: usize) {
    let mut b = ManuallyDrop::new(BackendInternal {
        // SAFETY: descriptor 5 is never used for real I/O
        sock: Endpoint::<VhostUserMsgHeader<BackendReq>>::from_stream(unsafe { UnixStream::from_raw_fd(5) }),
        reply_ack_negotiated: true,
        shared_object_negotiated: true,
        shmem_negotiated: true,
        error: None,
    });
    let body: [u8; 40] = kani::any();
    let ack_val: u64 = kani::any();
    let nfds: usize = kani::any();
    kani::assume(nfds <= 1);
    // SAFETY: ghost state
    unsafe {
        let code = if class == 1 { op + 1 } else { op };
        let flags = match class { 2 => 0x1, 3 => 0x6, 4 => 0x15, _ => 0x5 };
        g::put_hdr(0, code, flags, 8);
        g::put64(12, ack_val);
        // class 5: conformant ack header, then the peer closes the connection before the ack value arrives
        g::G.rx_len = if class == 5 { 12 } else { 20 };
        g::G.rx_closed = class == 5;
        g::G.rx_nfds = nfds;
        g::G.rx_fd_call = 1;
    }
    let req = match op {
        6 => BackendReq::SHARED_OBJECT_ADD,
        7 => BackendReq::SHARED_OBJECT_REMOVE,
        8 => BackendReq::SHARED_OBJECT_LOOKUP,
        9 => BackendReq::SHMEM_MAP,
        _ => BackendReq::SHMEM_UNMAP,
    };
    let fds = [LENT_FD];
    let with_fd = op == 8 || op == 9;
    let r = if op <= 8 {
        let mut ub = [0u8; 16];
        ub.copy_from_slice(&body[..16]);
        b.send_message(req, &VhostUserSharedMsg { uuid: uuid::Uuid::from_bytes(ub) }, if with_fd { Some(&fds[..]) } else { None })
    } else {
        let mut pad = [0u8; 7];
        pad.copy_from_slice(&body[1..8]);
        let m = VhostUserMMap { shmid: body[0], padding: pad, fd_offset: spec::rd64(&body, 8), shm_offset: spec::rd64(&body, 16), len: spec::rd64(&body, 24), flags: spec::rd64(&body, 32) };
        b.send_message(req, &m, if with_fd { Some(&fds[..]) } else { None })
    };
    let ok = r.is_ok();
    std::mem::forget(r);
    kani::cover!(if class == 0 { ok } else { !ok }, "witness");
    let size = if op <= 8 { 16 } else { 40 };
    // SAFETY: ghost state
    unsafe {
        assert!(g::tx32(0) == op && g::tx32(4) == (spec::F_VERSION_1 | spec::F_NEED_REPLY) && g::tx32(8) == size as u32 && g::G.tx_len == 12 + size, "C18/C01: request with NEED_REPLY under REPLY_ACK");
        assert!(g::tx64(12) == spec::rd64(&body, 0) && g::tx64(20) == spec::rd64(&body, 8));
        assert!(g::G.tx_first_nfds == with_fd as usize && !g::G.tx_late_fds);
        assert!(!g::G.blocked, "C18: no indefinite wait");
        let conformant = class == 0 && nfds == 0;
        if class == 5 {
            assert!(g::G.fd_state[0] != g::FD_OPEN, "C09: descriptor attached to an acknowledgement cut short by the end of the stream is closed");
        }
        if ok {
            assert!(conformant && ack_val == 0, "C18/C06: success only for a zero ack that answers this request");
        }
        if conformant {
            assert!(ok == (ack_val == 0), "C18: the call succeeds iff the handler returned zero");
        }
    }
}
macro_rules! u_px {
    ($name:ident, $op:expr, $class:expr) => {
        #[kani::proof]
        #[kani::unwind(5)]
        #[kani::stub(vmm_sys_util::sock_ctrl_msg::raw_recvmsg, g::ghost_recvmsg)]
        #[kani::stub(vmm_sys_util::sock_ctrl_msg::raw_sendmsg, g::ghost_sendmsg)]
        #[kani::stub(<std::os::fd::OwnedFd as std::ops::Drop>::drop, g::ghost_ownedfd_drop)]
        #[kani::stub(std::alloc::handle_alloc_error, g::ghost_alloc_error)]
        fn $name() {
            u_proxy_ack($op, $class)
        }
    };
}
// @harness props=C18,C01,C06 tier=quick reach=off timeout=500 bound="BackendInternal::send_message+wait_for_ack for shared_object_add under REPLY_ACK: all body bytes, ack value, 0..=1 ack descriptors; conformant ack header" stubs="raw_recvmsg/raw_sendmsg (ghost socket), OwnedFd::drop, handle_alloc_error"
u_px!(c18_u_ack_shared_object_add, 6, 0);
// @harness props=C18,C01,C06 tier=quick reach=off timeout=500 bound="BackendInternal::send_message+wait_for_ack for shmem_map under REPLY_ACK: all body bytes, ack value, 0..=1 ack descriptors; conformant ack header" stubs="raw_recvmsg/raw_sendmsg (ghost socket), OwnedFd::drop, handle_alloc_error"
u_px!(c18_u_ack_shmem_map, 9, 0);
// @harness props=C18,C01,C06 tier=thorough reach=off timeout=500 bound="BackendInternal::send_message+wait_for_ack for shared_object_lookup under REPLY_ACK: all body bytes, ack value, 0..=1 ack descriptors; conformant ack header" stubs="raw_recvmsg/raw_sendmsg (ghost socket), OwnedFd::drop, handle_alloc_error"
u_px!(c18_u_ack_shared_object_lookup, 8, 0);
// @harness props=C18,C01,C06 tier=thorough reach=off timeout=500 bound="BackendInternal::send_message+wait_for_ack for shared_object_remove under REPLY_ACK: all body bytes, ack value, 0..=1 ack descriptors; conformant ack header" stubs="raw_recvmsg/raw_sendmsg (ghost socket), OwnedFd::drop, handle_alloc_error"
u_px!(c18_u_ack_shared_object_remove, 7, 0);
// @harness props=C18,C01,C06 tier=thorough reach=off timeout=500 bound="BackendInternal::send_message+wait_for_ack for shmem_unmap under REPLY_ACK: all body bytes, ack value, 0..=1 ack descriptors; conformant ack header" stubs="raw_recvmsg/raw_sendmsg (ghost socket), OwnedFd::drop, handle_alloc_error"
u_px!(c18_u_ack_shmem_unmap, 10, 0);
// @harness props=C18,C06 tier=quick reach=off timeout=500 bound="shared_object_add answered by an ack of class foreign_code: must be refused" stubs="raw_recvmsg/raw_sendmsg (ghost socket), OwnedFd::drop, handle_alloc_error"
u_px!(c18_u_ack_foreign_code, 6, 1);
// @harness props=C18,C06 tier=thorough reach=off timeout=500 bound="shared_object_add answered by an ack of class noreplyflag: must be refused" stubs="raw_recvmsg/raw_sendmsg (ghost socket), OwnedFd::drop, handle_alloc_error"
u_px!(c18_u_ack_noreplyflag, 6, 2);
// @harness props=C18,C06 tier=thorough reach=off timeout=500 bound="shared_object_add answered by an ack of class version2: must be refused" stubs="raw_recvmsg/raw_sendmsg (ghost socket), OwnedFd::drop, handle_alloc_error"
u_px!(c18_u_ack_version2, 6, 3);
// @harness props=C18,C06 tier=thorough reach=off timeout=500 bound="shared_object_add answered by an ack of class reservedbit: must be refused" stubs="raw_recvmsg/raw_sendmsg (ghost socket), OwnedFd::drop, handle_alloc_error"
u_px!(c18_u_ack_reservedbit, 6, 4);
// @harness props=C18,C06,C08,C09,C03 tier=quick reach=off timeout=500 bound="shmem_unmap under REPLY_ACK answered by a conformant ack header after which the peer closes the connection (no ack value): must be an error, never success; 0..=1 descriptors on the header" stubs="raw_recvmsg/raw_sendmsg (ghost socket), OwnedFd::drop, handle_alloc_error"
u_px!(c18_u_ack_cut_by_eof, 10, 5);
