// harnesses for vub_backend
