// Child module of vhost_user_backend::backend: the recording device backend used by the daemon harnesses.
use super::*;
use crate::verif as vgm;
use crate::vring::verif as vr;
use crate::vring::{VringMutex, VringRwLock};

/// zero-sized recording backend over mutex-protected rings (record lives in the ghost statics)
#[derive(Clone, Copy)]
pub(crate) struct VB;
/// the same over rwlock-protected rings
#[derive(Clone, Copy)]
pub(crate) struct VBR;

macro_rules! impl_backend {
    ($t:ty, $ring:ty, $idfn:path) => {
        impl VhostUserBackend for $t {
            type Bitmap = ();
            type Vring = $ring;
            fn num_queues(&self) -> usize { vgm::vg().num_queues }
            fn max_queue_size(&self) -> usize { vgm::vg().max_queue_size }
            fn features(&self) -> u64 { vgm::vg().features }
            fn acked_features(&self, features: u64) { vgm::vg().acked = features; vgm::vg().acked_calls += 1; }
            fn protocol_features(&self) -> VhostUserProtocolFeatures { VhostUserProtocolFeatures::from_bits_retain(vgm::vg().features.rotate_left(7)) }
            fn reset_device(&self) { vgm::vg().reset_calls += 1; }
            fn set_event_idx(&self, enabled: bool) { vgm::vg().event_idx = enabled; vgm::vg().event_idx_calls += 1; }
            fn update_memory(&self, _mem: GM<()>) -> Result<()> { Ok(()) }
            fn queues_per_thread(&self) -> Vec<u64> { vec![1] }
            fn handle_event(&self, device_event: u16, _evset: EventSet, vrings: &[Self::Vring], thread_id: usize) -> Result<()> {
                // schedule point W2 (worker read the kick, handler not yet entered): a nested control message
                crate::handler::verif::nested_control();
                let g = vgm::vg();
                g.he_calls += 1;
                g.he_event = device_event;
                g.he_thread = thread_id;
                g.he_nvrings = vrings.len();
                if (device_event as usize) < vrings.len() {
                    g.he_ring_id = $idfn(&vrings[device_event as usize]);
                    g.he_ring_active = vr::is_active(&vrings[device_event as usize]);
                } else {
                    g.he_ring_id = 0;
                    g.he_ring_active = false;
                }
                Ok(())
            }
        }
    };
}
impl_backend!(VB, VringMutex<GM<()>>, vr::ring_id_mutex);
impl_backend!(VBR, VringRwLock<GM<()>>, vr::ring_id_rwlock);
