// Child module of vhost_user_backend::backend: the recording device backend used by the daemon harnesses.
use super::*;
use crate::verif as vgm;
use crate::vring::verif as vr;
use crate::vring::{VringMutex, VringRwLock};

/// zero-sized recording backend over mutex-protected rings (record lives in the ghost statics)
#[derive(Clone, Copy)]
pub(crate) struct VB;
/// the same over rwlock-protected rings
#[derive(Clone, Copy)]
pub(crate) struct VBR;

macro_rules! impl_backend {
    ($t:ty, $ring:ty, $idfn:path) => {
        impl VhostUserBackend for $t {
            type Bitmap = ();
            type Vring = $ring;
            fn num_queues(&self) -> usize { vgm::vg().num_queues }
            fn max_queue_size(&self) -> usize { vgm::vg().max_queue_size }
            fn features(&self) -> u64 { vgm::vg().features }
            fn acked_features(&self, features: u64) { vgm::vg().acked = features; vgm::vg().acked_calls += 1; }
            fn protocol_features(&self) -> VhostUserProtocolFeatures { VhostUserProtocolFeatures::from_bits_retain(vgm::vg().features.rotate_left(7)) }
            fn reset_device(&self) { vgm::vg().reset_calls += 1; }
            fn set_event_idx(&self, enabled: bool) { vgm::vg().event_idx = enabled; vgm::vg().event_idx_calls += 1; }
            fn update_memory(&self, _mem: GM<()>) -> Result<()> { Ok(()) }
            fn queues_per_thread(&self) -> Vec<u64> { vec![1] }
            fn set_backend_req_fd(&self, backend: vhost::vhost_user::Backend) {
                // keep the channel the daemon hands over: the harness drives it afterwards
                // SAFETY: single-threaded harness
                unsafe { BREQ.0 = Some(backend) };
            }
            fn handle_event(&self, device_event: u16, _evset: EventSet, vrings: &[Self::Vring], thread_id: usize) -> Result<()> {
                // schedule point W2 (worker read the kick, handler not yet entered): a nested control message
                crate::handler::verif::nested_control();
                let g = vgm::vg();
                g.he_calls += 1;
                g.he_event = device_event;
                g.he_thread = thread_id;
                g.he_nvrings = vrings.len();
                if (device_event as usize) < vrings.len() {
                    g.he_ring_id = $idfn(&vrings[device_event as usize]);
                    g.he_ring_active = vr::is_active(&vrings[device_event as usize]);
                } else {
                    g.he_ring_id = 0;
                    g.he_ring_active = false;
                }
                Ok(())
            }
        }
    };
}
/// the backend-request channel last handed to a recording backend
pub(crate) static mut BREQ: (Option<vhost::vhost_user::Backend>, u64) = (None, 0x6272_6571_5f63_6831);
impl_backend!(VB, VringMutex<GM<()>>, vr::ring_id_mutex);
impl_backend!(VBR, VringRwLock<GM<()>>, vr::ring_id_rwlock);

// ---------------------------------------------------------------- adapters (C14): Mutex<T>, RwLock<T>, Arc<T>
// A recording VhostUserBackendMut; every call through an adapter must reach it with equal arguments and the
// adapter must return what it returned.
pub(crate) struct AdRec {
    pub calls: u32,
    pub last: u32,
    pub a: [u64; 4],
    pub marker: u64,
}
pub(crate) static mut AD: AdRec = AdRec { calls: 0, last: 0, a: [0; 4], marker: 0x6164_6170_7465_7201 };
#[allow(static_mut_refs)]
fn ad() -> &'static mut AdRec {
    // SAFETY: single-threaded harness
    unsafe { &mut AD }
}
fn note(id: u32, a: [u64; 4]) {
    ad().calls += 1;
    ad().last = id;
    ad().a = a;
}
pub(crate) struct VBM;
impl VhostUserBackendMut for VBM {
    type Bitmap = ();
    type Vring = VringMutex<GM<()>>;
    fn num_queues(&self) -> usize { note(1, [0; 4]); 0x1234 }
    fn max_queue_size(&self) -> usize { note(2, [0; 4]); 0x4321 }
    fn features(&self) -> u64 { note(3, [0; 4]); 0xfeed_f00d_dead_beef }
    fn acked_features(&mut self, features: u64) { note(4, [features, 0, 0, 0]); }
    fn protocol_features(&self) -> VhostUserProtocolFeatures { note(5, [0; 4]); VhostUserProtocolFeatures::from_bits_retain(0x0123_4567_89ab_cdef) }
    fn reset_device(&mut self) { note(6, [0; 4]); }
    fn set_event_idx(&mut self, enabled: bool) { note(7, [enabled as u64, 0, 0, 0]); }
    fn get_config(&self, offset: u32, size: u32) -> Vec<u8> { note(8, [offset as u64, size as u64, 0, 0]); vec![0xa5, 0x5a] }
    fn set_config(&mut self, offset: u32, buf: &[u8]) -> Result<()> {
        note(9, [offset as u64, buf.len() as u64, if buf.len() > 0 { buf[0] as u64 } else { 0 }, if buf.len() > 1 { buf[buf.len() - 1] as u64 } else { 0 }]);
        Ok(())
    }
    fn update_memory(&mut self, mem: GM<()>) -> Result<()> { note(10, [0; 4]); std::mem::forget(mem); Ok(()) }
    fn queues_per_thread(&self) -> Vec<u64> { note(11, [0; 4]); vec![0b0101, 0b1010] }
    fn handle_event(&mut self, device_event: u16, evset: EventSet, vrings: &[Self::Vring], thread_id: usize) -> Result<()> {
        note(12, [device_event as u64, evset.bits() as u64, vrings.len() as u64, thread_id as u64]);
        Ok(())
    }
}

macro_rules! adapter_harness {
    ($name:ident, $wrap:expr) => {
        #[kani::proof]
        #[kani::unwind(4)]
        #[kani::stub(std::alloc::handle_alloc_error, vgm::ghost_alloc_error)]
        fn $name() {
            let b = std::mem::ManuallyDrop::new($wrap);
            let which: u8 = kani::any();
            kani::assume(which >= 1 && which <= 12 && which != 10);
            let (x, y): (u64, u64) = (kani::any(), kani::any());
            let data: [u8; 3] = kani::any();
            match which {
                1 => assert!(b.num_queues() == 0x1234 && ad().last == 1),
                2 => assert!(b.max_queue_size() == 0x4321 && ad().last == 2),
                3 => assert!(b.features() == 0xfeed_f00d_dead_beef && ad().last == 3),
                4 => { b.acked_features(x); assert!(ad().last == 4 && ad().a[0] == x, "C14: acknowledged features reach the backend unchanged"); }
                5 => assert!(b.protocol_features().bits() == 0x0123_4567_89ab_cdef && ad().last == 5),
                6 => { b.reset_device(); assert!(ad().last == 6); }
                7 => { b.set_event_idx(x & 1 == 1); assert!(ad().last == 7 && ad().a[0] == (x & 1), "C14: EVENT_IDX setting reaches the backend"); }
                8 => {
                    let v = b.get_config(x as u32, y as u32);
                    assert!(ad().last == 8 && ad().a[0] == (x as u32) as u64 && ad().a[1] == (y as u32) as u64);
                    assert!(v.len() == 2 && v[0] == 0xa5 && v[1] == 0x5a, "C14: config bytes returned unchanged");
                    std::mem::forget(v);
                }
                9 => {
                    let r = b.set_config(x as u32, &data[..]);
                    assert!(r.is_ok() && ad().last == 9 && ad().a[0] == (x as u32) as u64 && ad().a[1] == 3 && ad().a[2] == data[0] as u64 && ad().a[3] == data[2] as u64);
                    std::mem::forget(r);
                }
                11 => {
                    let v = b.queues_per_thread();
                    assert!(ad().last == 11 && v.len() == 2 && v[0] == 0b0101 && v[1] == 0b1010, "C17: queues-per-thread masks pass through the adapter");
                    std::mem::forget(v);
                }
                _ => {
                    let r = b.handle_event(x as u16, EventSet::IN, &[], y as usize);
                    assert!(r.is_ok() && ad().last == 12 && ad().a[0] == (x as u16) as u64 && ad().a[1] == EventSet::IN.bits() as u64 && ad().a[2] == 0 && ad().a[3] == (y as usize) as u64, "C17/C14: event id, event set and thread id reach the backend unchanged");
                    std::mem::forget(r);
                }
            }
            kani::cover!(which == 12);
            assert!(ad().calls == 1, "C14: exactly one backend call per adapter call");
        }
    };
}
// @harness props=C02,C14,C17 tier=quick reach=off bound="Mutex<T> backend adapter: one symbolic method of {num_queues, max_queue_size, features, acked_features, protocol_features, reset_device, set_event_idx, get_config, set_config, queues_per_thread, handle_event} with symbolic arguments" stubs="handle_alloc_error"
adapter_harness!(c14_u_adapter_mutex, Mutex::new(VBM));
// @harness props=C02,C14,C17 tier=quick reach=off bound="RwLock<T> backend adapter: as c14_u_adapter_mutex" stubs="handle_alloc_error"
adapter_harness!(c14_u_adapter_rwlock, RwLock::new(VBM));
// @harness props=C02,C14,C17 tier=quick reach=off bound="Arc<Mutex<T>> backend adapter (Arc<T> over Mutex<T>): as c14_u_adapter_mutex" stubs="handle_alloc_error"
adapter_harness!(c14_u_adapter_arc_mutex, Arc::new(Mutex::new(VBM)));
