// Child module of vhost::vhost_user::gpu_message.
use super::*;
use crate::vhost_user::verif::spec;

// @harness props=C20 tier=quick native=yes bound="all 2^96 GPU header bit patterns"
#[kani::proof]
fn c20_header_gpu() {
    let b: [u8; 12] = kani::any();
    // SAFETY: header is plain old data of 12 bytes.
    let h: VhostUserGpuMsgHeader<GpuBackendReq> =
        unsafe { core::ptr::read_unaligned(b.as_ptr() as *const _) };
    let code = spec::rd32(&b, 0);
    assert!(h.is_valid() == spec::valid_gpu_header(code, spec::rd32(&b, 4)));
    assert!(GpuBackendReq::try_from(code).is_ok() == spec::gpu_code_known(code));
    if let Ok(r) = GpuBackendReq::try_from(code) {
        assert!(u32::from(r) == code);
    }
    kani::cover!(h.is_valid());
    kani::cover!(!h.is_valid());
}
