// harnesses for vk_vsock
