// Child module of vhost::vhost_kern::vsock.  C19 for vhost-vsock.
use super::*;
use crate::vhost_kern::verif::*;
use std::os::unix::io::FromRawFd;

// @harness props=C19 tier=quick reach=off bound="Vsock::set_guest_cid (all u64), start, stop" stubs="vmm_sys_util::ioctl::* (ghost kernel), sysconf"
k_proof! { fn c19_vsock() {
    // SAFETY: descriptor number only
    let v = std::mem::ManuallyDrop::new(Vsock { fd: unsafe { File::from_raw_fd(KFD) }, mem: empty_mem() });
    let cid: u64 = kani::any();
    let r = v.set_guest_cid(cid);
    expect_ioctl(uapi::U_VHOST_VSOCK_SET_GUEST_CID, 8);
    assert!(a64(0) == cid && r.is_ok()); std::mem::forget(r); reset();
    let r = v.start();
    expect_ioctl(uapi::U_VHOST_VSOCK_SET_RUNNING, 4);
    assert!(a32(0) == 1); std::mem::forget(r); reset();
    let r = v.stop();
    expect_ioctl(uapi::U_VHOST_VSOCK_SET_RUNNING, 4);
    assert!(a32(0) == 0); std::mem::forget(r);
} }
