// Child module of vhost::vhost_user::backend_req_handler.
//
// Entry level (E): the real BackendReqHandler::handle_request over the ghost kernel, one harness
// per request code and header-flag class; body bytes, attached-descriptor count, negotiation
// state words and handler outcome symbolic.  One run of `e_backend` asserts, for that request:
//   C02 (backend half)  handler invoked exactly once with the values the peer encoded
//   C03 (backend half)  reply bytes = spec encoding of the handler's outcome
//   C04                 bytes consumed, exactly the prescribed reply/ack/nothing, next state
//   C05                 handler invoked only for protocol-valid requests; no panic/overflow/OOB
//   C07                 handler invoked only if the gating feature was acknowledged
//   C09                 every installed descriptor is owned by the handler or closed exactly once
// Unit level (U): the private parsing helpers with fully symbolic header words.
use super::*;
use crate::vhost_user::verif::ghost as g;
use crate::vhost_user::verif::spec;
use crate::vhost_user::verif::spec::fe;
use std::mem::ManuallyDrop;

// ------------------------------------------------------------- recording handler
// The record and the scripted outcome live in statics (not in the handler object): a Mutex<Rec>
// whose payload has symbolic fields makes CBMC lose the concrete futex word and explore the
// contended-lock paths.
pub(crate) struct Rec;
pub(crate) struct RecData {
    pub calls: u32,
    pub op: u32,
    pub a: [u64; 6],
    pub nfiles: u32,
    pub fd0: RawFd,
    pub fd1: RawFd,
    pub bytes: [u8; 8],
    pub nbytes: usize,
    // script
    pub fail: bool,
    pub ret: u64,
    pub ret2: u64,
    pub ret_file: bool,
    pub ret_len: usize,
    pub ret_bytes: [u8; 8],
}
pub(crate) static mut R: RecData = RecData {
    calls: 0, op: 0, a: [0; 6], nfiles: 0, fd0: -1, fd1: -1, bytes: [0; 8], nbytes: 0,
    fail: false, ret: 0x5eed, ret2: 0, ret_file: false, ret_len: 0, ret_bytes: [0x5a; 8],
};
#[allow(static_mut_refs)]
fn rd() -> &'static mut RecData {
    // SAFETY: single-threaded harness
    unsafe { &mut R }
}
impl Rec {
    fn script() {
        let r = rd();
        r.fail = kani::any();
        r.ret = kani::any();
        r.ret2 = kani::any();
        r.ret_file = kani::any();
        r.ret_bytes = kani::any();
    }
    fn hit(&mut self, op: u32) {
        rd().calls += 1;
        rd().op = op;
    }
    fn res(&self) -> Result<()> {
        if rd().fail { Err(Error::InvalidParam) } else { Ok(()) }
    }
    fn own(&mut self, f: File) {
        let fd = f.into_raw_fd();
        let r = rd();
        if r.nfiles == 0 { r.fd0 = fd } else { r.fd1 = fd }
        r.nfiles += 1;
        if fd >= g::FD_BASE && fd < g::FD_BASE + g::FD_N as RawFd {
            // SAFETY: single-threaded harness
            unsafe { g::G.fd_owned[(fd - g::FD_BASE) as usize] = true };
        }
    }
}
pub(crate) const RET_FD: RawFd = 60; // descriptor the handler "returns" in fd-bearing replies

impl VhostUserBackendReqHandlerMut for Rec {
    fn set_owner(&mut self) -> Result<()> { self.hit(fe::SET_OWNER); self.res() }
    fn reset_owner(&mut self) -> Result<()> { self.hit(fe::RESET_OWNER); self.res() }
    fn reset_device(&mut self) -> Result<()> { self.hit(fe::RESET_DEVICE); self.res() }
    fn get_features(&mut self) -> Result<u64> { self.hit(fe::GET_FEATURES); self.res().map(|_| rd().ret) }
    fn set_features(&mut self, features: u64) -> Result<()> { self.hit(fe::SET_FEATURES); rd().a[0] = features; self.res() }
    fn set_mem_table(&mut self, ctx: &[VhostUserMemoryRegion], files: Vec<File>) -> Result<()> {
        self.hit(fe::SET_MEM_TABLE);
        rd().a[0] = ctx.len() as u64;
        rd().a[1] = files.len() as u64;
        if ctx.len() >= 1 {
            let r = ctx[0];
            rd().a[2] = r.guest_phys_addr; rd().a[3] = r.memory_size; rd().a[4] = r.user_addr; rd().a[5] = r.mmap_offset;
        }
        if ctx.len() >= 2 {
            let r = ctx[1];
            rd().ret_bytes = [0; 8];
            rd().bytes = r.guest_phys_addr.to_le_bytes();
            rd().ret2 = r.memory_size; // reuse as record of second region
            rd().ret = r.user_addr ^ r.mmap_offset.rotate_left(17);
        }
        for f in files { self.own(f); }
        self.res()
    }
    fn set_vring_num(&mut self, index: u32, num: u32) -> Result<()> { self.hit(fe::SET_VRING_NUM); rd().a[0] = index as u64; rd().a[1] = num as u64; self.res() }
    fn set_vring_addr(&mut self, index: u32, flags: VhostUserVringAddrFlags, descriptor: u64, used: u64, available: u64, log: u64) -> Result<()> {
        self.hit(fe::SET_VRING_ADDR);
        rd().a = [index as u64, flags.bits() as u64, descriptor, used, available, log];
        self.res()
    }
    fn set_vring_base(&mut self, index: u32, base: u32) -> Result<()> { self.hit(fe::SET_VRING_BASE); rd().a[0] = index as u64; rd().a[1] = base as u64; self.res() }
    fn get_vring_base(&mut self, index: u32) -> Result<VhostUserVringState> {
        self.hit(fe::GET_VRING_BASE); rd().a[0] = index as u64;
        self.res().map(|_| VhostUserVringState::new(rd().ret as u32, (rd().ret >> 32) as u32))
    }
    fn set_vring_kick(&mut self, index: u8, fd: Option<File>) -> Result<()> { self.hit(fe::SET_VRING_KICK); rd().a[0] = index as u64; rd().a[1] = fd.is_some() as u64; if let Some(f) = fd { self.own(f) } self.res() }
    fn set_vring_call(&mut self, index: u8, fd: Option<File>) -> Result<()> { self.hit(fe::SET_VRING_CALL); rd().a[0] = index as u64; rd().a[1] = fd.is_some() as u64; if let Some(f) = fd { self.own(f) } self.res() }
    fn set_vring_err(&mut self, index: u8, fd: Option<File>) -> Result<()> { self.hit(fe::SET_VRING_ERR); rd().a[0] = index as u64; rd().a[1] = fd.is_some() as u64; if let Some(f) = fd { self.own(f) } self.res() }
    fn get_protocol_features(&mut self) -> Result<VhostUserProtocolFeatures> {
        self.hit(fe::GET_PROTOCOL_FEATURES);
        self.res().map(|_| VhostUserProtocolFeatures::from_bits_retain(rd().ret))
    }
    fn set_protocol_features(&mut self, features: u64) -> Result<()> { self.hit(fe::SET_PROTOCOL_FEATURES); rd().a[0] = features; self.res() }
    fn get_queue_num(&mut self) -> Result<u64> { self.hit(fe::GET_QUEUE_NUM); self.res().map(|_| rd().ret) }
    fn set_vring_enable(&mut self, index: u32, enable: bool) -> Result<()> { self.hit(fe::SET_VRING_ENABLE); rd().a[0] = index as u64; rd().a[1] = enable as u64; self.res() }
    fn get_config(&mut self, offset: u32, size: u32, flags: VhostUserConfigFlags) -> Result<Vec<u8>> {
        self.hit(fe::GET_CONFIG);
        rd().a[0] = offset as u64; rd().a[1] = size as u64; rd().a[2] = flags.bits() as u64;
        if rd().fail { return Err(Error::InvalidParam); }
        let mut v = rd().ret_bytes.to_vec();
        v.truncate(rd().ret_len);
        Ok(v)
    }
    fn set_config(&mut self, offset: u32, buf: &[u8], flags: VhostUserConfigFlags) -> Result<()> {
        self.hit(fe::SET_CONFIG);
        rd().a[0] = offset as u64; rd().a[1] = buf.len() as u64; rd().a[2] = flags.bits() as u64;
        rd().nbytes = buf.len();
        if buf.len() > 0 { rd().bytes[0] = buf[0]; }
        if buf.len() > 1 { rd().bytes[1] = buf[1]; }
        if buf.len() > 2 { rd().bytes[2] = buf[2]; }
        if buf.len() > 3 { rd().bytes[3] = buf[3]; }
        self.res()
    }
    fn set_backend_req_fd(&mut self, backend: Backend) {
        self.hit(fe::SET_BACKEND_REQ_FD);
        // SAFETY: single-threaded harness; exactly one descriptor (100) can reach this point
        unsafe { g::G.fd_owned[0] = true };
        std::mem::forget(backend);
    }
    fn set_gpu_socket(&mut self, gpu_backend: GpuBackend) -> Result<()> {
        self.hit(fe::GPU_SET_SOCKET);
        unsafe { g::G.fd_owned[0] = true };
        std::mem::forget(gpu_backend);
        self.res()
    }
    fn get_shared_object(&mut self, uuid: VhostUserSharedMsg) -> Result<File> {
        self.hit(fe::GET_SHARED_OBJECT);
        let b = uuid.uuid.as_bytes();
        rd().a[0] = spec::rd64(b, 0); rd().a[1] = spec::rd64(b, 8);
        // SAFETY: descriptor number only; never used for I/O in the model
        self.res().map(|_| unsafe { File::from_raw_fd(RET_FD) })
    }
    fn get_inflight_fd(&mut self, inflight: &VhostUserInflight) -> Result<(VhostUserInflight, File)> {
        self.hit(fe::GET_INFLIGHT_FD);
        rd().a = [inflight.mmap_size, inflight.mmap_offset, inflight.num_queues as u64, inflight.queue_size as u64, 0, 0];
        self.res().map(|_| (VhostUserInflight::new(rd().ret, rd().ret2, rd().ret_bytes[0] as u16 | 0x100, rd().ret_bytes[1] as u16 | 0x200), unsafe { File::from_raw_fd(RET_FD) }))
    }
    fn set_inflight_fd(&mut self, inflight: &VhostUserInflight, file: File) -> Result<()> {
        self.hit(fe::SET_INFLIGHT_FD);
        rd().a = [inflight.mmap_size, inflight.mmap_offset, inflight.num_queues as u64, inflight.queue_size as u64, 0, 0];
        self.own(file);
        self.res()
    }
    fn get_max_mem_slots(&mut self) -> Result<u64> { self.hit(fe::GET_MAX_MEM_SLOTS); self.res().map(|_| rd().ret) }
    fn add_mem_region(&mut self, region: &VhostUserSingleMemoryRegion, fd: File) -> Result<()> {
        self.hit(fe::ADD_MEM_REG);
        rd().a = [region.guest_phys_addr, region.memory_size, region.user_addr, region.mmap_offset, 0, 0];
        self.own(fd);
        self.res()
    }
    fn remove_mem_region(&mut self, region: &VhostUserSingleMemoryRegion) -> Result<()> {
        self.hit(fe::REM_MEM_REG);
        rd().a = [region.guest_phys_addr, region.memory_size, region.user_addr, region.mmap_offset, 0, 0];
        self.res()
    }
    fn set_device_state_fd(&mut self, direction: VhostTransferStateDirection, phase: VhostTransferStatePhase, fd: File) -> Result<Option<File>> {
        self.hit(fe::SET_DEVICE_STATE_FD);
        rd().a[0] = direction as u32 as u64; rd().a[1] = phase as u32 as u64;
        self.own(fd);
        self.res().map(|_| if rd().ret_file { Some(unsafe { File::from_raw_fd(RET_FD) }) } else { None })
    }
    fn check_device_state(&mut self) -> Result<()> { self.hit(fe::CHECK_DEVICE_STATE); self.res() }
    fn get_shmem_config(&mut self) -> Result<VhostUserShMemConfig> {
        self.hit(fe::GET_SHMEM_CONFIG);
        self.res().map(|_| {
            let mut c = VhostUserShMemConfig::default();
            c.nregions = rd().ret as u32;
            c.memory_sizes[0] = rd().ret2;
            c.memory_sizes[1] = !rd().ret2;
            c.memory_sizes[2] = rd().ret;
            c
        })
    }
    fn set_log_base(&mut self, log: &VhostUserLog, file: File) -> Result<()> {
        self.hit(fe::SET_LOG_BASE);
        rd().a[0] = log.mmap_size; rd().a[1] = log.mmap_offset;
        self.own(file);
        self.res()
    }
}

type H = BackendReqHandler<Mutex<Rec>>;

/// endpoint with an arbitrary negotiation state obeying the invariant
/// reply_ack_enabled == (offered PROTOCOL_FEATURES && acked REPLY_ACK)   (shown inductive by the
/// `next state` assertions below and by c04_state_invariant_init)
fn mk_handler(v: u64, av: u64, ap: u64) -> ManuallyDrop<H> {
    ManuallyDrop::new(BackendReqHandler {
        // SAFETY: descriptor 5 is never used for real I/O (all socket calls are stubbed)
        main_sock: Endpoint::from_stream(unsafe { UnixStream::from_raw_fd(5) }),
        backend: Arc::new(Mutex::new(Rec)),
        virtio_features: v,
        acked_virtio_features: av,
        acked_protocol_features: ap,
        reply_ack_enabled: spec::reply_ack_on(v, ap),
        error: None,
    })
}

fn body_size(code: u32, cfg_payload: usize) -> usize {
    match code {
        fe::SET_FEATURES | fe::SET_PROTOCOL_FEATURES | fe::SET_VRING_KICK | fe::SET_VRING_CALL | fe::SET_VRING_ERR => 8,
        fe::SET_VRING_NUM | fe::SET_VRING_BASE | fe::GET_VRING_BASE | fe::SET_VRING_ENABLE => 8,
        fe::SET_VRING_ADDR => 40,
        fe::SET_MEM_TABLE => 8 + 32 * 2,
        fe::GET_CONFIG | fe::SET_CONFIG => 12 + cfg_payload,
        fe::GET_INFLIGHT_FD | fe::SET_INFLIGHT_FD => 24,
        fe::ADD_MEM_REG | fe::REM_MEM_REG => 40,
        fe::GET_SHARED_OBJECT => 16,
        fe::SET_DEVICE_STATE_FD => 8,
        fe::SET_LOG_BASE => 16,
        _ => 0,
    }
}

/// Is this code implemented by the request server in this build (postcopy feature off)?
fn served(code: u32) -> bool {
    !matches!(code, fe::SET_LOG_FD | fe::SEND_RARP | fe::NET_SET_MTU | fe::IOTLB_MSG | fe::SET_VRING_ENDIAN
        | fe::CREATE_CRYPTO_SESSION | fe::CLOSE_CRYPTO_SESSION | fe::POSTCOPY_ADVISE | fe::POSTCOPY_LISTEN
        | fe::POSTCOPY_END | fe::VRING_KICK | fe::SET_STATUS | fe::GET_STATUS)
}

/// One request through the real handle_request.  `code`, `flags`, `size_delta` are concrete per
/// harness (a symbolic header makes CBMC explore all 44 arms at once, DESIGN.md section 2 row 8).
fn e_backend(code: u32, flags: u32, size_delta: i32, variant: usize) {
    // ---- symbolic inputs
    let v: u64 = kani::any();
    let av: u64 = kani::any();
    let ap: u64 = kani::any();
    let mut body: [u8; 72] = kani::any();
    if (code == fe::GET_CONFIG || code == fe::SET_CONFIG) && variant & 0x200 != 0 {
        // variant bit 0x200: the body's size word is the concrete payload length (keeps every slice taken
        // with it of constant length for CBMC, whatever the code does with it)
        spec::wr32(&mut body, 4, (variant & 15) as u32);
    }
    let nfds: usize = if variant == 99 { 0 } else { kani::any() };
    kani::assume(nfds <= 2);
    // `variant`: payload length for GET/SET_CONFIG, number of regions the size field allows for SET_MEM_TABLE
    // (GET_CONFIG: variant = payload length + 16 * length of the data the handler returns)
    let cfg_payload: usize = if code == fe::GET_CONFIG || code == fe::SET_CONFIG { variant & 15 } else { 0 };
    let natural = if code == fe::SET_MEM_TABLE { 8 + 32 * variant } else { body_size(code, cfg_payload) };
    let size = (natural as i32 + size_delta) as usize;
    let mut h = mk_handler(v, av, ap);
    // SAFETY: single-threaded harness, ghost state is plain data
    unsafe {
        g::put_hdr(0, code, flags, size as u32);
        g::put64(12, spec::rd64(&body, 0));
        g::put64(20, spec::rd64(&body, 8));
        g::put64(28, spec::rd64(&body, 16));
        g::put64(36, spec::rd64(&body, 24));
        g::put64(44, spec::rd64(&body, 32));
        g::put64(52, spec::rd64(&body, 40));
        g::put64(60, spec::rd64(&body, 48));
        g::put64(68, spec::rd64(&body, 56));
        g::put64(76, spec::rd64(&body, 64));
        g::G.rx_len = 12 + size;
        g::G.rx_closed = false; // peer stays connected and silent: any over-read blocks forever
        g::G.rx_nfds = nfds;
        g::G.rx_fd_call = 1;
    }
    Rec::script();
    if code == fe::GET_CONFIG {
        // the handler's outcome is concrete per harness here: a symbolic Ok(Vec)/Err merge makes the
        // payload length non-constant for CBMC and the send loops unbounded (measured: 3.4M steps, OOM)
        rd().ret_len = (variant >> 4) & 15;
        rd().fail = variant & 0x100 != 0;
    }
    if code == fe::SET_BACKEND_REQ_FD {
        rd().fail = false; // this handler method returns (): it cannot fail
    }
    if code == fe::SET_LOG_BASE && variant != 0 {
        rd().fail = variant == 2; // concrete outcome instances (1: success, 2: failure)
    }
    let (script_fail, ret, ret2, ret_file, ret_bytes, ret_len) = (rd().fail, rd().ret, rd().ret2, rd().ret_file, rd().ret_bytes, rd().ret_len);

    // ---- run the real code
    let res = h.handle_request();
    let ok = res.is_ok();
    std::mem::forget(res);

    // ---- reference: is the request well-formed / valid / permitted?
    let need_reply = flags & spec::F_NEED_REPLY != 0;
    // GPU_SET_SOCKET, CHECK_DEVICE_STATE, GET_SHMEM_CONFIG take no arguments and the property states no
    // size rule for them: the oracle is silent about their size/REPLY bit
    let lenient = matches!(code, fe::GPU_SET_SOCKET | fe::CHECK_DEVICE_STATE | fe::GET_SHMEM_CONFIG);
    let hdr_ok = lenient || (flags & spec::F_REPLY == 0 && flags & 3 == 1 && size_delta == 0);
    let gate = spec::gating_proto_feature(code);
    let gated_ok = (gate == 0 || ap & gate != 0)
        && (code != fe::SET_VRING_ENABLE || av & spec::VIRTIO_F_PROTOCOL_FEATURES != 0);
    let body_ok = match code {
        fe::SET_VRING_ADDR => spec::valid_vring_addr(&body),
        fe::SET_VRING_ENABLE => spec::rd32(&body, 4) <= 1,
        fe::SET_MEM_TABLE => {
            let n = spec::rd32(&body, 0);
            spec::valid_memory(&body) && n as usize == variant && spec::valid_region(&body, 8) && (n < 2 || spec::valid_region(&body, 40))
        }
        fe::GET_CONFIG | fe::SET_CONFIG => spec::valid_config(&body) && spec::rd32(&body, 4) as usize == cfg_payload,
        fe::GET_INFLIGHT_FD | fe::SET_INFLIGHT_FD => spec::valid_inflight(&body),
        fe::ADD_MEM_REG | fe::REM_MEM_REG => spec::valid_single_region(&body),
        fe::GET_SHARED_OBJECT => spec::valid_shared(&body),
        fe::SET_DEVICE_STATE_FD => spec::valid_devstate(&body),
        fe::SET_LOG_BASE => spec::valid_log(&body),
        _ => true,
    };
    let fds_ok = match code {
        fe::SET_MEM_TABLE => nfds == spec::rd32(&body, 0) as usize,
        fe::SET_VRING_KICK | fe::SET_VRING_CALL | fe::SET_VRING_ERR => {
            if spec::rd64(&body, 0) & 0x100 != 0 { nfds == 0 } else { nfds == 1 }
        }
        _ => Some(nfds) == spec::required_fds(code),
    };
    let wellformed = served(code) && hdr_ok && gated_ok && body_ok && fds_ok;

    let r = rd();
    // single reachability witness (every satisfied cover costs one ~250 MB JSON trace, see DESIGN.md)
    let expect_call = served(code) && hdr_ok;
    kani::cover!(if expect_call { r.calls == 1 && (ok || script_fail) } else { !ok && r.calls == 0 }, "witness: accepted request reaches the handler / malformed one is rejected");
    // ---- C05 / C07 / C02: handler reached exactly for well-formed, permitted requests, once
    assert!(r.calls <= 1);
    if r.calls == 1 {
        assert!(served(code) && hdr_ok, "C05: handler reached for a malformed header");
        assert!(body_ok, "C05: handler reached with a protocol-invalid body");
        assert!(fds_ok, "C05: handler reached with a wrong number of descriptors");
        assert!(gated_ok, "C07: handler reached although the gating feature was not acknowledged");
        assert!(r.op == code, "C02: wrong handler operation");
    }
    if wellformed {
        assert!(r.calls == 1, "C02: well-formed request did not reach the handler exactly once");
    }
    // ---- C02: arguments equal the peer's values
    if r.calls == 1 {
        match code {
            fe::SET_FEATURES | fe::SET_PROTOCOL_FEATURES => assert!(r.a[0] == spec::rd64(&body, 0)),
            fe::SET_VRING_NUM | fe::SET_VRING_BASE | fe::SET_VRING_ENABLE => {
                assert!(r.a[0] == spec::rd32(&body, 0) as u64 && r.a[1] == spec::rd32(&body, 4) as u64)
            }
            fe::GET_VRING_BASE => assert!(r.a[0] == spec::rd32(&body, 0) as u64),
            fe::SET_VRING_ADDR => {
                assert!(r.a[0] == spec::rd32(&body, 0) as u64 && r.a[1] == spec::rd32(&body, 4) as u64);
                assert!(r.a[2] == spec::rd64(&body, 8) && r.a[3] == spec::rd64(&body, 16));
                assert!(r.a[4] == spec::rd64(&body, 24) && r.a[5] == spec::rd64(&body, 32));
            }
            fe::SET_VRING_KICK | fe::SET_VRING_CALL | fe::SET_VRING_ERR => {
                assert!(r.a[0] == (spec::rd64(&body, 0) & 0xff));
                assert!(r.a[1] == nfds as u64 && r.nfiles == nfds as u32);
                assert!(nfds == 0 || r.fd0 == g::FD_BASE);
            }
            fe::SET_MEM_TABLE => {
                let n = spec::rd32(&body, 0) as u64;
                assert!(r.a[0] == n && r.a[1] == n && r.nfiles as u64 == n);
                assert!(r.a[2] == spec::rd64(&body, 8) && r.a[3] == spec::rd64(&body, 16));
                assert!(r.a[4] == spec::rd64(&body, 24) && r.a[5] == spec::rd64(&body, 32));
                assert!(r.fd0 == g::FD_BASE);
                if n == 2 {
                    assert!(u64::from_le_bytes(r.bytes) == spec::rd64(&body, 40) && r.ret2 == spec::rd64(&body, 48));
                    assert!(r.ret == spec::rd64(&body, 56) ^ spec::rd64(&body, 64).rotate_left(17));
                    assert!(r.fd1 == g::FD_BASE + 1);
                }
            }
            fe::GET_CONFIG => {
                assert!(r.a[0] == spec::rd32(&body, 0) as u64 && r.a[1] == spec::rd32(&body, 4) as u64 && r.a[2] == spec::rd32(&body, 8) as u64)
            }
            fe::SET_CONFIG => {
                assert!(r.a[0] == spec::rd32(&body, 0) as u64 && r.a[1] == cfg_payload as u64 && r.a[2] == spec::rd32(&body, 8) as u64);
                assert!(r.bytes[0] == body[12] && r.bytes[1] == body[13] && r.bytes[2] == body[14] && r.bytes[3] == body[15]);
            }
            fe::GET_INFLIGHT_FD | fe::SET_INFLIGHT_FD => {
                assert!(r.a[0] == spec::rd64(&body, 0) && r.a[1] == spec::rd64(&body, 8));
                assert!(r.a[2] == spec::rd16(&body, 16) as u64 && r.a[3] == spec::rd16(&body, 18) as u64);
            }
            fe::ADD_MEM_REG | fe::REM_MEM_REG => {
                assert!(r.a[0] == spec::rd64(&body, 8) && r.a[1] == spec::rd64(&body, 16));
                assert!(r.a[2] == spec::rd64(&body, 24) && r.a[3] == spec::rd64(&body, 32));
            }
            fe::GET_SHARED_OBJECT => assert!(r.a[0] == spec::rd64(&body, 0) && r.a[1] == spec::rd64(&body, 8)),
            fe::SET_DEVICE_STATE_FD => assert!(r.a[0] == spec::rd32(&body, 0) as u64 && r.a[1] == spec::rd32(&body, 4) as u64),
            fe::SET_LOG_BASE => assert!(r.a[0] == spec::rd64(&body, 0) && r.a[1] == spec::rd64(&body, 8)),
            _ => {}
        }
        if matches!(code, fe::SET_INFLIGHT_FD | fe::ADD_MEM_REG | fe::SET_DEVICE_STATE_FD | fe::SET_LOG_BASE) {
            assert!(r.nfiles == 1 && r.fd0 == g::FD_BASE, "C02: the single passed descriptor reaches the handler");
        }
    }

    // ---- C04: next negotiation state
    let (mut v2, mut av2, mut ap2) = (v, av, ap);
    if r.calls == 1 {
        match code {
            fe::GET_FEATURES => if !script_fail { v2 = ret },
            fe::SET_FEATURES => av2 = spec::rd64(&body, 0),
            fe::SET_PROTOCOL_FEATURES => ap2 = spec::rd64(&body, 0),
            _ => {}
        }
    }
    assert!(h.virtio_features == v2 && h.acked_virtio_features == av2 && h.acked_protocol_features == ap2,
        "C04: negotiation state after the request");
    assert!(h.reply_ack_enabled == spec::reply_ack_on(v2, ap2), "C04: reply-ack invariant after the request");
    // "has been negotiated": for the two messages that change the state the reference accepts the
    // post-update state (DESIGN.md C04)
    let ack_on = spec::reply_ack_on(v2, ap2);

    // ---- C03 / C04: what was written
    // SAFETY: reading ghost state
    unsafe {
        assert!(!g::G.blocked, "C04: read beyond the declared message size");
        if wellformed {
            assert!(g::G.rx_pos == 12 + size, "C04: consumed exactly header + declared size");
        }
        assert!(!g::G.tx_late_fds, "C01: descriptors only with the first byte");
        let exp_reply: Option<usize> = if r.calls == 1 {
            match code {
                fe::GET_FEATURES | fe::GET_PROTOCOL_FEATURES | fe::GET_QUEUE_NUM | fe::GET_MAX_MEM_SLOTS
                | fe::GET_VRING_BASE | fe::GET_INFLIGHT_FD | fe::SET_LOG_BASE | fe::GET_SHMEM_CONFIG => {
                    if script_fail { None } else { spec::reply_size(code) }
                }
                // in-band failure encodings: a reply is due whatever the handler said
                fe::GET_SHARED_OBJECT | fe::SET_DEVICE_STATE_FD | fe::CHECK_DEVICE_STATE => spec::reply_size(code),
                fe::GET_CONFIG => {
                    if !script_fail && ret_len == spec::rd32(&body, 4) as usize { Some(12 + ret_len) } else { Some(12) }
                }
                _ => if ack_on && need_reply { Some(8) } else { None },
            }
        } else {
            None
        };
        match exp_reply {
            // The property prescribes the output for well-formed requests only.  For a request that is
            // rejected (handler not reached) the oracle accepts silence or - when an acknowledgement was
            // requested under REPLY_ACK for a request without defined reply - one non-zero ack.
            None if r.calls == 0 && ack_on && need_reply && spec::reply_size(code).is_none() && g::G.tx_len != 0 => {
                assert!(g::G.tx_calls == 1 && g::G.tx_len == 20, "C04: at most one ack for a rejected request");
                assert!(g::tx32(0) == code && g::tx32(4) == (spec::F_VERSION_1 | spec::F_REPLY) && g::tx32(8) == 8);
                assert!(g::tx64(12) != 0, "C04: a rejected request must never be acknowledged with 0");
                assert!(g::G.tx_first_nfds == 0);
            }
            None => assert!(g::G.tx_len == 0 && g::G.tx_calls == 0, "C04: nothing may be written"),
            Some(n) => {
                assert!(g::G.tx_calls == 1, "C04: exactly one reply");
                assert!(g::G.tx_len == 12 + n, "C04: reply length");
                assert!(g::tx32(0) == code, "C04: reply carries the request code");
                assert!(g::tx32(4) == (spec::F_VERSION_1 | spec::F_REPLY), "C04: reply flags = version 1 | REPLY");
                assert!(g::tx32(8) == n as u32, "C04: reply size field equals payload");
                assert!(g::G.tx_call_at_rx_pos == 12 + size, "C04: reply written after the whole request was read");
            }
        }
        // reply payloads (C03 backend half)
        if let Some(_n) = exp_reply {
            let mut exp_fds = 0usize;
            match code {
                fe::GET_FEATURES | fe::GET_QUEUE_NUM | fe::GET_MAX_MEM_SLOTS => assert!(g::tx64(12) == ret),
                fe::GET_PROTOCOL_FEATURES => assert!(g::tx64(12) == (ret | spec::pf::REPLY_ACK), "C07: REPLY_ACK always offered"),
                fe::GET_VRING_BASE => assert!(g::tx64(12) == ret),
                fe::GET_INFLIGHT_FD => {
                    assert!(g::tx64(12) == ret && g::tx64(20) == ret2);
                    assert!(g::tx32(28) == ((ret_bytes[0] as u32 | 0x100) | ((ret_bytes[1] as u32 | 0x200) << 16)));
                    exp_fds = 1;
                }
                fe::GET_SHARED_OBJECT => exp_fds = if script_fail { 0 } else { 1 },
                fe::SET_DEVICE_STATE_FD => {
                    let e = if script_fail { 0x101 } else if ret_file { 0 } else { 0x100 };
                    assert!(g::tx64(12) == e, "C03: device-state reply value");
                    exp_fds = if !script_fail && ret_file { 1 } else { 0 };
                }
                fe::CHECK_DEVICE_STATE => assert!((g::tx64(12) == 0) == !script_fail, "C03: 0 iff success"),
                fe::SET_LOG_BASE => assert!(g::tx64(12) == spec::rd64(&body, 0) && g::tx64(20) == spec::rd64(&body, 8)),
                fe::GET_SHMEM_CONFIG => {
                    assert!(g::tx32(12) == ret as u32 && g::tx32(16) == 0);
                    assert!(g::tx64(20) == ret2 && g::tx64(28) == !ret2 && g::tx64(36) == ret && g::tx64(44) == 0);
                }
                fe::GET_CONFIG => {
                    assert!(g::tx32(12) == spec::rd32(&body, 0), "C03: config reply offset");
                    assert!(g::tx32(20) == spec::rd32(&body, 8), "C03: config reply flags");
                    if g::G.tx_len == 24 {
                        assert!(g::tx32(16) == 0, "C03: zero size marks failure");
                    } else {
                        assert!(g::tx32(16) == ret_len as u32);
                        assert!(g::tx8(24) == ret_bytes[0] && (ret_len < 4 || g::tx8(27) == ret_bytes[3]));
                    }
                }
                _ => assert!((g::tx64(12) == 0) == !script_fail, "C04: ack is 0 iff the handler succeeded"),
            }
            assert!(g::G.tx_first_nfds == exp_fds, "C03: descriptor attached exactly when the reply defines one");
            if exp_fds == 1 {
                assert!(g::G.tx_first_fd0 == RET_FD, "C03: the handler's descriptor is the one sent");
            }
        }
        // C03: result of handle_request
        if r.calls == 1 && script_fail && !matches!(code, fe::GET_CONFIG | fe::GET_SHARED_OBJECT | fe::SET_DEVICE_STATE_FD | fe::CHECK_DEVICE_STATE) {
            assert!(!ok, "C03: handler failure is reported to the serving loop");
        }
        if !wellformed {
            assert!(!ok, "C05: malformed request must be rejected with an error");
        }
        // ---- C09: every installed descriptor owned by the handler or closed exactly once
        assert!(!g::G.double_close, "C09: double close");
        let mut k = 0;
        while k < 2 {
            if g::G.fd_state[k] != g::FD_FREE {
                assert!((g::G.fd_owned[k] && g::G.fd_state[k] == g::FD_OPEN) || (!g::G.fd_owned[k] && g::G.fd_state[k] == g::FD_CLOSED),
                    "C09: received descriptor neither handed over nor closed");
            }
            k += 1;
        }
        assert!(g::G.fd_state[0] != g::FD_FREE || nfds == 0, "descriptors were installed by the first receive");
    }
}

macro_rules! e_be {
    ($name:ident, $code:expr, $flags:expr, $delta:expr, $variant:expr) => {
        #[kani::proof]
        #[kani::unwind(5)]
        #[kani::stub(vmm_sys_util::sock_ctrl_msg::raw_recvmsg, g::ghost_recvmsg)]
        #[kani::stub(vmm_sys_util::sock_ctrl_msg::raw_sendmsg, g::ghost_sendmsg)]
        #[kani::stub(libc::close, g::ghost_close)]
        #[kani::stub(<std::os::fd::OwnedFd as std::ops::Drop>::drop, g::ghost_ownedfd_drop)]
        #[kani::stub(std::alloc::handle_alloc_error, g::ghost_alloc_error)]
        fn $name() {
            e_backend($code, $flags, $delta, $variant)
        }
    };
}



// =============================================================== truncation through the request server (C08)
/// The stream ends `cut` bytes into a well-formed request (header flags 0x1, `size`-byte body): the real
/// handle_request must report an error - `Disconnected` only when nothing of the message was received -
/// without reaching the handler, writing anything or blocking.
fn e_backend_trunc(code: u32, size: usize, cut: usize) {
    let v: u64 = kani::any();
    let av: u64 = kani::any();
    let ap: u64 = kani::any();
    let b0: u64 = kani::any();
    let b1: u64 = kani::any();
    let nfds: usize = kani::any();
    kani::assume(nfds <= 2);
    let mut h = mk_handler(v, av, ap);
    // SAFETY: single-threaded harness, ghost state is plain data
    unsafe {
        g::put_hdr(0, code, spec::F_VERSION_1, size as u32);
        g::put64(12, b0);
        g::put64(20, b1);
        g::G.rx_len = cut;
        g::G.rx_closed = true; // the peer closes after `cut` bytes
        g::G.rx_nfds = nfds; // 0..=2 descriptors ride on the first byte (if there is one)
        g::G.rx_fd_call = 1;
    }
    Rec::script();
    let res = h.handle_request();
    kani::cover!(res.is_err());
    match &res {
        Ok(_) => assert!(false, "C08: a request cut short by the end of the stream must be an error"),
        Err(Error::Disconnected) => assert!(cut == 0, "C08: 'disconnected' only at a message boundary"),
        Err(_) => assert!(cut > 0, "C08: end of stream at a message boundary is a clean disconnect"),
    }
    assert!(rd().calls == 0, "C08: a partial request must not be dispatched");
    // SAFETY: reading ghost state
    unsafe {
        assert!(!g::G.blocked, "C08: must not block on a closed stream");
        assert!(g::G.tx_len == 0, "C08: nothing is written for a partial request");
        assert!(!g::G.double_close, "C09: double close");
        assert!(g::G.fd_state[0] != g::FD_OPEN && g::G.fd_state[1] != g::FD_OPEN, "C09: descriptors that arrived with a request cut short by the end of the stream are closed by the library");
    }
    std::mem::forget(res);
}
macro_rules! e_bt {
    ($name:ident, $code:expr, $size:expr, $cut:expr) => {
        #[kani::proof]
        #[kani::unwind(5)]
        #[kani::stub(vmm_sys_util::sock_ctrl_msg::raw_recvmsg, g::ghost_recvmsg)]
        #[kani::stub(vmm_sys_util::sock_ctrl_msg::raw_sendmsg, g::ghost_sendmsg)]
        #[kani::stub(libc::close, g::ghost_close)]
        #[kani::stub(<std::os::fd::OwnedFd as std::ops::Drop>::drop, g::ghost_ownedfd_drop)]
        #[kani::stub(std::alloc::handle_alloc_error, g::ghost_alloc_error)]
        fn $name() {
            e_backend_trunc($code, $size, $cut)
        }
    };
}
// @harness props=C08,C09 tier=quick reach=off timeout=400 bound="handle_request: SET_VRING_NUM (8-byte body), stream ends at offset 0 (message boundary); body and negotiation words symbolic; 0..=2 descriptors attached to the first byte" stubs="vmm-sys-util raw_recvmsg/raw_sendmsg (ghost stream socket), libc::close + OwnedFd::drop, handle_alloc_error"
e_bt!(c08_e_request_cut_0, 8, 8, 0);
// @harness props=C08,C09 tier=quick reach=off timeout=400 bound="handle_request: SET_VRING_NUM (8-byte body), stream ends at offset 7 (inside the header); body and negotiation words symbolic; 0..=2 descriptors attached to the first byte" stubs="vmm-sys-util raw_recvmsg/raw_sendmsg (ghost stream socket), libc::close + OwnedFd::drop, handle_alloc_error"
e_bt!(c08_e_request_cut_7, 8, 8, 7);
// @harness props=C08,C09 tier=quick reach=off timeout=400 bound="handle_request: SET_VRING_NUM (8-byte body), stream ends at offset 12 (right after the header); body and negotiation words symbolic; 0..=2 descriptors attached to the first byte" stubs="vmm-sys-util raw_recvmsg/raw_sendmsg (ghost stream socket), libc::close + OwnedFd::drop, handle_alloc_error"
e_bt!(c08_e_request_cut_12, 8, 8, 12);
// @harness props=C08,C09 tier=quick reach=off timeout=400 bound="handle_request: SET_VRING_NUM (8-byte body), stream ends at offset 19 (one byte short); body and negotiation words symbolic; 0..=2 descriptors attached to the first byte" stubs="vmm-sys-util raw_recvmsg/raw_sendmsg (ghost stream socket), libc::close + OwnedFd::drop, handle_alloc_error"
e_bt!(c08_e_request_cut_19, 8, 8, 19);
// @harness props=C08,C09 tier=thorough reach=off timeout=400 bound="handle_request: SET_VRING_ADDR (40-byte body), stream ends at offset 12; body and negotiation words symbolic; 0..=2 descriptors attached to the first byte" stubs="vmm-sys-util raw_recvmsg/raw_sendmsg (ghost stream socket), libc::close + OwnedFd::drop, handle_alloc_error"
e_bt!(c08_e_vring_addr_cut_12, 9, 40, 12);
// @harness props=C08,C09 tier=thorough reach=off timeout=400 bound="handle_request: SET_FEATURES (8-byte body), stream ends at offset 15; body and negotiation words symbolic; 0..=2 descriptors attached to the first byte" stubs="vmm-sys-util raw_recvmsg/raw_sendmsg (ghost stream socket), libc::close + OwnedFd::drop, handle_alloc_error"
e_bt!(c08_e_set_features_cut_15, 2, 8, 15);

// =============================================================== descriptors in the wrong place (C09)
/// Descriptors attached to the BODY segment of a request (the protocol carries them with the first byte of
/// the message only).  Whatever the library decides to do with such a message, every descriptor the kernel
/// installed must end up closed or handed to the handler - and the call must not block.
fn e_backend_fds_on_body(code: u32, size: usize) {
    let v: u64 = kani::any();
    let av: u64 = kani::any();
    let ap: u64 = kani::any();
    let b0: u64 = kani::any();
    let nfds: usize = kani::any();
    kani::assume(nfds >= 1 && nfds <= 2);
    let mut h = mk_handler(v, av, ap);
    // SAFETY: single-threaded harness, ghost state is plain data
    unsafe {
        g::put_hdr(0, code, spec::F_VERSION_1, size as u32);
        g::put64(12, b0);
        g::G.rx_len = 12 + size;
        g::G.rx_closed = true;
        g::G.rx_nfds = nfds;
        g::G.rx_fd_call = 2; // second receive call = the body segment
    }
    Rec::script();
    let res = h.handle_request();
    kani::cover!(res.is_err() || res.is_ok());
    std::mem::forget(res);
    // SAFETY: reading ghost state
    unsafe {
        assert!(!g::G.blocked, "C09/C08: must not block");
        assert!(!g::G.double_close, "C09: double close");
        let mut k = 0;
        while k < 2 {
            assert!(g::G.fd_state[k] != g::FD_OPEN || g::G.fd_owned[k], "C09: a descriptor that arrived on the body segment was neither closed nor handed to the handler");
            k += 1;
        }
    }
}
macro_rules! e_bf {
    ($name:ident, $code:expr, $size:expr) => {
        #[kani::proof]
        #[kani::unwind(5)]
        #[kani::stub(vmm_sys_util::sock_ctrl_msg::raw_recvmsg, g::ghost_recvmsg)]
        #[kani::stub(vmm_sys_util::sock_ctrl_msg::raw_sendmsg, g::ghost_sendmsg)]
        #[kani::stub(libc::close, g::ghost_close)]
        #[kani::stub(<std::os::fd::OwnedFd as std::ops::Drop>::drop, g::ghost_ownedfd_drop)]
        #[kani::stub(std::alloc::handle_alloc_error, g::ghost_alloc_error)]
        fn $name() {
            e_backend_fds_on_body($code, $size)
        }
    };
}
// @harness props=C09 tier=quick reach=off timeout=400 bound="handle_request: SET_FEATURES whose 8-byte body segment carries 1..=2 descriptors (none on the header); body and negotiation words symbolic" stubs="vmm-sys-util raw_recvmsg/raw_sendmsg (ghost stream socket: a receive buffer without control space discards the descriptors, as vmm-sys-util does), libc::close + OwnedFd::drop, handle_alloc_error"
e_bf!(c09_e_fds_on_body_set_features, 2, 8);
// @harness props=C09 tier=thorough reach=off timeout=400 bound="handle_request: SET_VRING_NUM whose 8-byte body segment carries 1..=2 descriptors" stubs="vmm-sys-util raw_recvmsg/raw_sendmsg (ghost stream socket), libc::close + OwnedFd::drop, handle_alloc_error"
e_bf!(c09_e_fds_on_body_set_vring_num, 8, 8);

// =============================================================== unit level (C05, C09)
// Private helpers of the request server called directly with fully symbolic header words.
macro_rules! u_stubs {
    ($(#[$m:meta])* fn $name:ident() $body:block) => {
        $(#[$m])*
        #[kani::proof]
        #[kani::unwind(7)]
        #[kani::stub(libc::close, g::ghost_close)]
        #[kani::stub(<std::os::fd::OwnedFd as std::ops::Drop>::drop, g::ghost_ownedfd_drop)]
        #[kani::stub(std::alloc::handle_alloc_error, g::ghost_alloc_error)]
        fn $name() $body
    };
}

fn any_hdr() -> (VhostUserMsgHeader<FrontendReq>, u32, u32, u32) {
    let code: u32 = kani::any();
    let flags: u32 = kani::any();
    let size: u32 = kani::any();
    let mut b = [0u8; 12];
    spec::wr32(&mut b, 0, code);
    spec::wr32(&mut b, 4, flags);
    spec::wr32(&mut b, 8, size);
    // SAFETY: the header is 12 bytes of plain old data
    (unsafe { core::ptr::read_unaligned(b.as_ptr() as *const VhostUserMsgHeader<FrontendReq>) }, code, flags, size)
}

/// 0..=n files with descriptor numbers 100.. (marked open in the ghost table)
fn any_files(max: usize) -> (Option<Vec<File>>, usize) {
    let n: usize = kani::any();
    kani::assume(n <= max);
    if n == 0 {
        return (None, 0);
    }
    let mut v = Vec::with_capacity(3);
    let mut k = 0;
    while k < n {
        // SAFETY: ghost descriptor numbers, never used for I/O
        unsafe {
            g::G.fd_state[k] = g::FD_OPEN;
            v.push(File::from_raw_fd(g::FD_BASE + k as RawFd));
        }
        k += 1;
    }
    (Some(v), n)
}

// @harness props=C05 tier=quick bound="all header words (request code, flags, size: 2^96), all usize size/expected"
u_stubs! { fn c05_u_check_request_size() {
    let h = mk_handler(kani::any(), kani::any(), kani::any());
    let (hdr, _code, flags, hsize) = any_hdr();
    let size: usize = kani::any();
    let expected: usize = kani::any();
    let r = h.check_request_size(&hdr, size, expected);
    let ok = r.is_ok();
    std::mem::forget(r);
    let exp = hsize as usize == expected && flags & spec::F_REPLY == 0 && flags & 3 == 1 && size == expected;
    kani::cover!(ok);
    assert!(ok == exp, "C05: request-size/flags check");
} }

// @harness props=C05,C09 tier=quick bound="all u32 request codes x 0..=2 attached files"
u_stubs! { fn c05_u_check_attached_files() {
    let h = mk_handler(kani::any(), kani::any(), kani::any());
    let (hdr, code, _flags, _size) = any_hdr();
    let (files, n) = any_files(2);
    let r = h.check_attached_files(&hdr, &files);
    let ok = r.is_ok();
    std::mem::forget(r);
    std::mem::forget(files);
    // requests that may carry descriptors at all (the exact count is checked per request later)
    let may_carry = spec::required_fds(code) != Some(0) && spec::frontend_code_known(code);
    kani::cover!(ok && n > 0);
    kani::cover!(!ok);
    assert!(ok == (n == 0 || may_carry), "C05/C09: descriptors on a request that takes none are refused");
} }

macro_rules! u_extract {
    ($name:ident, $t:ty, $n:expr, $valid:expr) => {
        u_stubs! { fn $name() {
            let h = mk_handler(kani::any(), kani::any(), kani::any());
            let (hdr, _code, flags, hsize) = any_hdr();
            let arr: [u8; $n + 1] = kani::any();
            let size: usize = kani::any();
            kani::assume(size <= $n + 1);
            // invariant established by handle_request: the buffer holds exactly `size` received bytes
            let buf = &arr[..size];
            let r = h.extract_request_body::<$t>(&hdr, size, buf);
            kani::cover!(r.is_ok());
            if let Ok(msg) = &r {
                assert!(hsize as usize == $n && size == $n, "C05: body accepted with a wrong size");
                assert!(flags & spec::F_REPLY == 0 && flags & 3 == 1, "C05: body accepted with bad header flags");
                let f: fn(&[u8]) -> bool = $valid;
                assert!(f(&arr[..$n]), "C05: protocol-invalid body accepted");
                // decoded value = the received bytes (C01 decode direction)
                // SAFETY: $t is plain old data of $n bytes
                let back: [u8; $n] = unsafe { core::mem::transmute_copy(msg) };
                let mut i = 0;
                while i < $n / 8 {
                    assert!(spec::rd64(&back, 8 * i) == spec::rd64(&arr, 8 * i), "C01: decoded body differs from the wire bytes");
                    i += 1;
                }
            } else {
                let f: fn(&[u8]) -> bool = $valid;
                let wf = hsize as usize == $n && size == $n && flags & spec::F_REPLY == 0 && flags & 3 == 1 && f(&arr[..$n]);
                assert!(!wf, "C02: well-formed body rejected");
            }
            std::mem::forget(r);
        } }
    };
}
// @harness props=C05,C01 tier=quick bound="u64 body: all header words, size 0..=9, all body bytes"
u_extract!(c05_u_extract_u64, VhostUserU64, 8, |_b| true);
// @harness props=C05,C01 tier=quick bound="vring state body: all header words, size 0..=9, all body bytes"
u_extract!(c05_u_extract_vring_state, VhostUserVringState, 8, |_b| true);
// @harness props=C05,C01 tier=quick bound="vring addr body: all header words, size 0..=41, all body bytes"
u_extract!(c05_u_extract_vring_addr, VhostUserVringAddr, 40, |b| spec::valid_vring_addr(b));
// @harness props=C05,C01 tier=quick bound="inflight body: all header words, size 0..=25, all body bytes"
u_extract!(c05_u_extract_inflight, VhostUserInflight, 24, |b| spec::valid_inflight(b));
// @harness props=C05,C01 tier=quick bound="single region body: all header words, size 0..=41, all body bytes"
u_extract!(c05_u_extract_single_region, VhostUserSingleMemoryRegion, 40, |b| spec::valid_single_region(b));
// @harness props=C05,C01 tier=quick bound="log body: all header words, size 0..=17, all body bytes"
u_extract!(c05_u_extract_log, VhostUserLog, 16, |b| spec::valid_log(b));
// @harness props=C05,C01 tier=quick bound="shared-object body: all header words, size 0..=17, all body bytes"
u_extract!(c05_u_extract_shared, VhostUserSharedMsg, 16, |b| spec::valid_shared(b));
// @harness props=C05,C01 tier=quick bound="device-state body: all header words, size 0..=9, all body bytes"
u_extract!(c05_u_extract_devstate, VhostUserTransferDeviceState, 8, |b| spec::valid_devstate(b));

// @harness props=C05,C09 tier=quick bound="vring fd request: buffer 0..=9 bytes, all payload values, 0..=3 attached files"
u_stubs! { fn c05_u_vring_fd_request() {
    let mut h = mk_handler(kani::any(), kani::any(), kani::any());
    let arr: [u8; 9] = kani::any();
    let len: usize = kani::any();
    kani::assume(len <= 9);
    let (files, n) = any_files(3);
    let r = h.handle_vring_fd_request(&arr[..len], files);
    kani::cover!(r.is_ok() && n == 1);
    kani::cover!(r.is_ok() && n == 0);
    let v = spec::rd64(&arr, 0);
    let nofd = v & 0x100 != 0;
    match &r {
        Ok((idx, f)) => {
            assert!(len >= 8, "C05: short buffer accepted");
            assert!(*idx as u64 == v & 0xff, "C02: ring index = low byte");
            assert!(f.is_some() == !nofd, "C05: file present iff the no-fd bit is clear");
            assert!(if nofd { n == 0 } else { n == 1 }, "C05: exactly the number of files the request prescribes");
        }
        Err(_) => assert!(len < 8 || (nofd && n != 0) || (!nofd && n != 1), "C02: well-formed vring fd request rejected"),
    }
    // C09: whatever was not handed out has been closed, nothing twice
    let kept = matches!(&r, Ok((_, Some(_))));
    std::mem::forget(r);
    // SAFETY: reading ghost state
    unsafe {
        assert!(!g::G.double_close, "C09: double close");
        let mut k = 0;
        while k < 3 {
            if k < n {
                let open = g::G.fd_state[k] == g::FD_OPEN;
                assert!(open == (kept && k == 0), "C09: every file not handed to the caller is closed");
            }
            k += 1;
        }
    }
} }

// @harness props=C05,C02 tier=quick bound="SET_MEM_TABLE helper: all header words, buffer/size 0..=73 bytes (<= 2 regions), all region values, 0..=3 files" timeout=600
u_stubs! { fn c05_u_set_mem_table() {
    let mut h = mk_handler(kani::any(), kani::any(), kani::any());
    Rec::script();
    let (hdr, _code, flags, hsize) = any_hdr();
    let arr: [u8; 73] = kani::any();
    let size: usize = kani::any();
    kani::assume(size <= 73);
    let (files, n) = any_files(3);
    let r = h.set_mem_table(&hdr, size, &arr[..size], files);
    std::mem::forget(r);
    let rec = rd();
    kani::cover!(rec.calls == 1 && rec.a[0] == 2);
    let nreg = spec::rd32(&arr, 0) as usize;
    let wf = hsize as usize == size && flags & spec::F_REPLY == 0 && flags & 3 == 1 && size >= 8
        && spec::valid_memory(&arr) && size == 8 + 32 * nreg && n == nreg
        && spec::valid_region(&arr, 8) && (nreg < 2 || spec::valid_region(&arr, 40));
    assert!((rec.calls == 1) == wf, "C05/C02: handler reached exactly for valid memory tables");
    if rec.calls == 1 {
        assert!(rec.a[0] == nreg as u64 && rec.a[1] == nreg as u64);
        assert!(rec.a[2] == spec::rd64(&arr, 8) && rec.a[3] == spec::rd64(&arr, 16) && rec.a[4] == spec::rd64(&arr, 24) && rec.a[5] == spec::rd64(&arr, 32));
    }
} }

// @harness props=C05,C02 tier=quick bound="SET_CONFIG helper: size 0..=21 (payload <= 8), all config header values and payload bytes"
u_stubs! { fn c05_u_set_config() {
    let mut h = mk_handler(kani::any(), kani::any(), kani::any());
    Rec::script();
    let arr: [u8; 21] = kani::any();
    let size: usize = kani::any();
    kani::assume(size <= 21);
    let r = h.set_config(size, &arr[..size]);
    std::mem::forget(r);
    let rec = rd();
    kani::cover!(rec.calls == 1);
    let wf = size >= 12 && spec::valid_config(&arr) && spec::rd32(&arr, 4) as usize == size - 12;
    assert!((rec.calls == 1) == wf, "C05/C02: handler reached exactly for valid config writes");
    if rec.calls == 1 {
        assert!(rec.a[0] == spec::rd32(&arr, 0) as u64 && rec.a[1] == (size - 12) as u64 && rec.a[2] == spec::rd32(&arr, 8) as u64);
        assert!(rec.nbytes == size - 12 && (size < 13 || rec.bytes[0] == arr[12]) && (size < 16 || rec.bytes[3] == arr[15]));
    }
} }

// @harness props=C04,C01,C03,C05 tier=quick bound="new_reply_header::<T> for the three reply body types (8, 12, 24 bytes): all header words of the request, ALL usize payload sizes: a reply header is produced exactly when body + payload fit one message (<= 4096 bytes), with size = body + payload, REPLY set, NEED_REPLY clear, version 1, the request's code" stubs="close/OwnedFd::drop, handle_alloc_error"
u_stubs! { fn c04_u_reply_header() {
    let h = mk_handler(kani::any(), kani::any(), kani::any());
    let (hdr, code, _flags, _size) = any_hdr();
    kani::assume(code >= 1 && code <= 43 && served(code));
    let payload: usize = kani::any();
    let which: u8 = kani::any();
    kani::assume(which < 3);
    let (body, r) = match which {
        0 => (8usize, h.new_reply_header::<VhostUserU64>(&hdr, payload)),
        1 => (12usize, h.new_reply_header::<VhostUserConfig>(&hdr, payload)),
        _ => (24usize, h.new_reply_header::<VhostUserInflight>(&hdr, payload)),
    };
    let fits = payload <= 4096 && body + payload <= 4096;
    kani::cover!(r.is_ok() && payload == 4096 - 12);
    assert!(r.is_ok() == fits, "C04: a reply is produced exactly when body + payload fit one message (at most 4096 bytes)");
    if let Ok(rh) = &r {
        // SAFETY: the header is 12 bytes of plain old data
        let b: [u8; 12] = unsafe { std::mem::transmute_copy(rh) };
        assert!(spec::rd32(&b, 0) == code, "C04: reply carries the request's code");
        assert!(spec::rd32(&b, 4) == 0x5, "C04: reply flags = version 1 | REPLY");
        assert!(spec::rd32(&b, 8) as usize == body + payload, "C04: reply size = body + payload");
    }
    std::mem::forget(r);
} }

// ==== generated by tools/gen_e_be.py ====
// @harness props=C01,C03,C04,C07,C09 tier=quick reach=off timeout=400 bound="request 1 (GET_FEATURES), header flags 0x9 (version 1, NEED_REPLY), declared size = body size; body bytes, 0..=2 attached descriptors, three 64-bit negotiation words and handler outcome symbolic; one request" stubs="vmm-sys-util raw_recvmsg/raw_sendmsg (ghost stream socket), libc::close + OwnedFd::drop (ghost descriptor table), handle_alloc_error (assume false)"
e_be!(e_be_get_features_nr, 1, 0x9, 0, 0);
// @harness props=C01,C03,C04,C07,C09 tier=thorough reach=off timeout=400 bound="request 1 (GET_FEATURES), header flags 0x1 (version 1), declared size = body size; body bytes, 0..=2 attached descriptors, three 64-bit negotiation words and handler outcome symbolic; one request" stubs="vmm-sys-util raw_recvmsg/raw_sendmsg (ghost stream socket), libc::close + OwnedFd::drop (ghost descriptor table), handle_alloc_error (assume false)"
e_be!(e_be_get_features_plain, 1, 0x1, 0, 0);
// @harness props=C01,C02,C03,C04,C07 tier=quick reach=off timeout=400 bound="request 2 (SET_FEATURES), header flags 0x9 (version 1, NEED_REPLY), declared size = body size; body bytes, 0..=2 attached descriptors, three 64-bit negotiation words and handler outcome symbolic; one request" stubs="vmm-sys-util raw_recvmsg/raw_sendmsg (ghost stream socket), libc::close + OwnedFd::drop (ghost descriptor table), handle_alloc_error (assume false)"
e_be!(e_be_set_features_nr, 2, 0x9, 0, 0);
// @harness props=C01,C02,C03,C04,C07 tier=quick reach=off timeout=400 bound="request 2 (SET_FEATURES), header flags 0x1 (version 1), declared size = body size; body bytes, 0..=2 attached descriptors, three 64-bit negotiation words and handler outcome symbolic; one request" stubs="vmm-sys-util raw_recvmsg/raw_sendmsg (ghost stream socket), libc::close + OwnedFd::drop (ghost descriptor table), handle_alloc_error (assume false)"
e_be!(e_be_set_features_plain, 2, 0x1, 0, 0);
// @harness props=C01,C03,C04 tier=quick thorough_for=C01 reach=off timeout=400 bound="request 3 (SET_OWNER), header flags 0x9 (version 1, NEED_REPLY), declared size = body size; body bytes, 0..=2 attached descriptors, three 64-bit negotiation words and handler outcome symbolic; one request" stubs="vmm-sys-util raw_recvmsg/raw_sendmsg (ghost stream socket), libc::close + OwnedFd::drop (ghost descriptor table), handle_alloc_error (assume false)"
e_be!(e_be_set_owner_nr, 3, 0x9, 0, 0);
// @harness props=C01,C03,C04 tier=thorough reach=off timeout=400 bound="request 3 (SET_OWNER), header flags 0x1 (version 1), declared size = body size; body bytes, 0..=2 attached descriptors, three 64-bit negotiation words and handler outcome symbolic; one request" stubs="vmm-sys-util raw_recvmsg/raw_sendmsg (ghost stream socket), libc::close + OwnedFd::drop (ghost descriptor table), handle_alloc_error (assume false)"
e_be!(e_be_set_owner_plain, 3, 0x1, 0, 0);
// @harness props=C01,C04 tier=quick thorough_for=C04,C01 reach=off timeout=400 bound="request 4 (RESET_OWNER), header flags 0x9 (version 1, NEED_REPLY), declared size = body size; body bytes, 0..=2 attached descriptors, three 64-bit negotiation words and handler outcome symbolic; one request" stubs="vmm-sys-util raw_recvmsg/raw_sendmsg (ghost stream socket), libc::close + OwnedFd::drop (ghost descriptor table), handle_alloc_error (assume false)"
e_be!(e_be_reset_owner_nr, 4, 0x9, 0, 0);
// @harness props=C01,C04 tier=thorough reach=off timeout=400 bound="request 4 (RESET_OWNER), header flags 0x1 (version 1), declared size = body size; body bytes, 0..=2 attached descriptors, three 64-bit negotiation words and handler outcome symbolic; one request" stubs="vmm-sys-util raw_recvmsg/raw_sendmsg (ghost stream socket), libc::close + OwnedFd::drop (ghost descriptor table), handle_alloc_error (assume false)"
e_be!(e_be_reset_owner_plain, 4, 0x1, 0, 0);
// @harness props=C01,C02,C04,C05,C09 tier=quick thorough_for=C01 reach=off timeout=400 bound="request 5 (SET_MEM_TABLE), header flags 0x9 (version 1, NEED_REPLY), declared size = body size; body bytes, 0..=2 attached descriptors, three 64-bit negotiation words and handler outcome symbolic; one request" stubs="vmm-sys-util raw_recvmsg/raw_sendmsg (ghost stream socket), libc::close + OwnedFd::drop (ghost descriptor table), handle_alloc_error (assume false)"
e_be!(e_be_set_mem_table_v1_nr, 5, 0x9, 0, 1);
// @harness props=C01,C02,C04,C05,C09 tier=thorough reach=off timeout=400 bound="request 5 (SET_MEM_TABLE), header flags 0x1 (version 1), declared size = body size; body bytes, 0..=2 attached descriptors, three 64-bit negotiation words and handler outcome symbolic; one request" stubs="vmm-sys-util raw_recvmsg/raw_sendmsg (ghost stream socket), libc::close + OwnedFd::drop (ghost descriptor table), handle_alloc_error (assume false)"
e_be!(e_be_set_mem_table_v1_plain, 5, 0x1, 0, 1);
// @harness props=C01,C02,C04,C05,C09 tier=thorough thorough_for=C01 reach=off timeout=400 bound="request 5 (SET_MEM_TABLE), header flags 0x9 (version 1, NEED_REPLY), declared size = body size; body bytes, 0..=2 attached descriptors, three 64-bit negotiation words and handler outcome symbolic; one request" stubs="vmm-sys-util raw_recvmsg/raw_sendmsg (ghost stream socket), libc::close + OwnedFd::drop (ghost descriptor table), handle_alloc_error (assume false)"
e_be!(e_be_set_mem_table_v2_nr, 5, 0x9, 0, 2);
// @harness props=C01,C02,C04,C05,C09 tier=thorough reach=off timeout=400 bound="request 5 (SET_MEM_TABLE), header flags 0x1 (version 1), declared size = body size; body bytes, 0..=2 attached descriptors, three 64-bit negotiation words and handler outcome symbolic; one request" stubs="vmm-sys-util raw_recvmsg/raw_sendmsg (ghost stream socket), libc::close + OwnedFd::drop (ghost descriptor table), handle_alloc_error (assume false)"
e_be!(e_be_set_mem_table_v2_plain, 5, 0x1, 0, 2);
// @harness props=C01,C02,C03,C04,C05,C07,C09 tier=quick reach=off timeout=400 bound="request 6 (SET_LOG_BASE), header flags 0x9 (version 1, NEED_REPLY), declared size = body size; body bytes, 0..=2 attached descriptors, three 64-bit negotiation words and handler outcome symbolic; one request" stubs="vmm-sys-util raw_recvmsg/raw_sendmsg (ghost stream socket), libc::close + OwnedFd::drop (ghost descriptor table), handle_alloc_error (assume false)"
e_be!(e_be_set_log_base_nr, 6, 0x9, 0, 0);
// @harness props=C01,C02,C03,C04,C05,C07,C09 tier=thorough reach=off timeout=400 bound="request 6 (SET_LOG_BASE), header flags 0x1 (version 1), declared size = body size; body bytes, 0..=2 attached descriptors, three 64-bit negotiation words and handler outcome symbolic; one request" stubs="vmm-sys-util raw_recvmsg/raw_sendmsg (ghost stream socket), libc::close + OwnedFd::drop (ghost descriptor table), handle_alloc_error (assume false)"
e_be!(e_be_set_log_base_plain, 6, 0x1, 0, 0);
// @harness props=C01,C02,C03,C04,C09 tier=quick thorough_for=C01 reach=off timeout=400 bound="request 8 (SET_VRING_NUM), header flags 0x9 (version 1, NEED_REPLY), declared size = body size; body bytes, 0..=2 attached descriptors, three 64-bit negotiation words and handler outcome symbolic; one request" stubs="vmm-sys-util raw_recvmsg/raw_sendmsg (ghost stream socket), libc::close + OwnedFd::drop (ghost descriptor table), handle_alloc_error (assume false)"
e_be!(e_be_set_vring_num_nr, 8, 0x9, 0, 0);
// @harness props=C01,C02,C03,C04,C09 tier=thorough reach=off timeout=400 bound="request 8 (SET_VRING_NUM), header flags 0x1 (version 1), declared size = body size; body bytes, 0..=2 attached descriptors, three 64-bit negotiation words and handler outcome symbolic; one request" stubs="vmm-sys-util raw_recvmsg/raw_sendmsg (ghost stream socket), libc::close + OwnedFd::drop (ghost descriptor table), handle_alloc_error (assume false)"
e_be!(e_be_set_vring_num_plain, 8, 0x1, 0, 0);
// @harness props=C01,C02,C04,C05 tier=quick thorough_for=C04,C01 reach=off timeout=400 bound="request 9 (SET_VRING_ADDR), header flags 0x9 (version 1, NEED_REPLY), declared size = body size; body bytes, 0..=2 attached descriptors, three 64-bit negotiation words and handler outcome symbolic; one request" stubs="vmm-sys-util raw_recvmsg/raw_sendmsg (ghost stream socket), libc::close + OwnedFd::drop (ghost descriptor table), handle_alloc_error (assume false)"
e_be!(e_be_set_vring_addr_nr, 9, 0x9, 0, 0);
// @harness props=C01,C02,C04,C05 tier=thorough reach=off timeout=400 bound="request 9 (SET_VRING_ADDR), header flags 0x1 (version 1), declared size = body size; body bytes, 0..=2 attached descriptors, three 64-bit negotiation words and handler outcome symbolic; one request" stubs="vmm-sys-util raw_recvmsg/raw_sendmsg (ghost stream socket), libc::close + OwnedFd::drop (ghost descriptor table), handle_alloc_error (assume false)"
e_be!(e_be_set_vring_addr_plain, 9, 0x1, 0, 0);
// @harness props=C01,C02,C04 tier=quick thorough_for=C04,C01 reach=off timeout=400 bound="request 10 (SET_VRING_BASE), header flags 0x9 (version 1, NEED_REPLY), declared size = body size; body bytes, 0..=2 attached descriptors, three 64-bit negotiation words and handler outcome symbolic; one request" stubs="vmm-sys-util raw_recvmsg/raw_sendmsg (ghost stream socket), libc::close + OwnedFd::drop (ghost descriptor table), handle_alloc_error (assume false)"
e_be!(e_be_set_vring_base_nr, 10, 0x9, 0, 0);
// @harness props=C01,C02,C04 tier=thorough reach=off timeout=400 bound="request 10 (SET_VRING_BASE), header flags 0x1 (version 1), declared size = body size; body bytes, 0..=2 attached descriptors, three 64-bit negotiation words and handler outcome symbolic; one request" stubs="vmm-sys-util raw_recvmsg/raw_sendmsg (ghost stream socket), libc::close + OwnedFd::drop (ghost descriptor table), handle_alloc_error (assume false)"
e_be!(e_be_set_vring_base_plain, 10, 0x1, 0, 0);
// @harness props=C01,C02,C03,C04 tier=quick reach=off timeout=400 bound="request 11 (GET_VRING_BASE), header flags 0x9 (version 1, NEED_REPLY), declared size = body size; body bytes, 0..=2 attached descriptors, three 64-bit negotiation words and handler outcome symbolic; one request" stubs="vmm-sys-util raw_recvmsg/raw_sendmsg (ghost stream socket), libc::close + OwnedFd::drop (ghost descriptor table), handle_alloc_error (assume false)"
e_be!(e_be_get_vring_base_nr, 11, 0x9, 0, 0);
// @harness props=C01,C02,C03,C04 tier=thorough reach=off timeout=400 bound="request 11 (GET_VRING_BASE), header flags 0x1 (version 1), declared size = body size; body bytes, 0..=2 attached descriptors, three 64-bit negotiation words and handler outcome symbolic; one request" stubs="vmm-sys-util raw_recvmsg/raw_sendmsg (ghost stream socket), libc::close + OwnedFd::drop (ghost descriptor table), handle_alloc_error (assume false)"
e_be!(e_be_get_vring_base_plain, 11, 0x1, 0, 0);
// @harness props=C01,C02,C04,C05,C09 tier=quick reach=off timeout=400 bound="request 12 (SET_VRING_KICK), header flags 0x9 (version 1, NEED_REPLY), declared size = body size; body bytes, 0..=2 attached descriptors, three 64-bit negotiation words and handler outcome symbolic; one request" stubs="vmm-sys-util raw_recvmsg/raw_sendmsg (ghost stream socket), libc::close + OwnedFd::drop (ghost descriptor table), handle_alloc_error (assume false)"
e_be!(e_be_set_vring_kick_nr, 12, 0x9, 0, 0);
// @harness props=C01,C02,C04,C05,C09 tier=quick reach=off timeout=400 bound="request 12 (SET_VRING_KICK), header flags 0x1 (version 1), declared size = body size; body bytes, 0..=2 attached descriptors, three 64-bit negotiation words and handler outcome symbolic; one request" stubs="vmm-sys-util raw_recvmsg/raw_sendmsg (ghost stream socket), libc::close + OwnedFd::drop (ghost descriptor table), handle_alloc_error (assume false)"
e_be!(e_be_set_vring_kick_plain, 12, 0x1, 0, 0);
// @harness props=C01,C02,C04,C05,C09 tier=quick thorough_for=C04,C01 reach=off timeout=400 bound="request 13 (SET_VRING_CALL), header flags 0x9 (version 1, NEED_REPLY), declared size = body size; body bytes, 0..=2 attached descriptors, three 64-bit negotiation words and handler outcome symbolic; one request" stubs="vmm-sys-util raw_recvmsg/raw_sendmsg (ghost stream socket), libc::close + OwnedFd::drop (ghost descriptor table), handle_alloc_error (assume false)"
e_be!(e_be_set_vring_call_nr, 13, 0x9, 0, 0);
// @harness props=C01,C02,C04,C05,C09 tier=thorough reach=off timeout=400 bound="request 13 (SET_VRING_CALL), header flags 0x1 (version 1), declared size = body size; body bytes, 0..=2 attached descriptors, three 64-bit negotiation words and handler outcome symbolic; one request" stubs="vmm-sys-util raw_recvmsg/raw_sendmsg (ghost stream socket), libc::close + OwnedFd::drop (ghost descriptor table), handle_alloc_error (assume false)"
e_be!(e_be_set_vring_call_plain, 13, 0x1, 0, 0);
// @harness props=C01,C02,C04,C05,C09 tier=quick thorough_for=C04,C01 reach=off timeout=400 bound="request 14 (SET_VRING_ERR), header flags 0x9 (version 1, NEED_REPLY), declared size = body size; body bytes, 0..=2 attached descriptors, three 64-bit negotiation words and handler outcome symbolic; one request" stubs="vmm-sys-util raw_recvmsg/raw_sendmsg (ghost stream socket), libc::close + OwnedFd::drop (ghost descriptor table), handle_alloc_error (assume false)"
e_be!(e_be_set_vring_err_nr, 14, 0x9, 0, 0);
// @harness props=C01,C02,C04,C05,C09 tier=thorough reach=off timeout=400 bound="request 14 (SET_VRING_ERR), header flags 0x1 (version 1), declared size = body size; body bytes, 0..=2 attached descriptors, three 64-bit negotiation words and handler outcome symbolic; one request" stubs="vmm-sys-util raw_recvmsg/raw_sendmsg (ghost stream socket), libc::close + OwnedFd::drop (ghost descriptor table), handle_alloc_error (assume false)"
e_be!(e_be_set_vring_err_plain, 14, 0x1, 0, 0);
// @harness props=C01,C03,C04,C07 tier=quick reach=off timeout=400 bound="request 15 (GET_PROTOCOL_FEATURES), header flags 0x9 (version 1, NEED_REPLY), declared size = body size; body bytes, 0..=2 attached descriptors, three 64-bit negotiation words and handler outcome symbolic; one request" stubs="vmm-sys-util raw_recvmsg/raw_sendmsg (ghost stream socket), libc::close + OwnedFd::drop (ghost descriptor table), handle_alloc_error (assume false)"
e_be!(e_be_get_protocol_features_nr, 15, 0x9, 0, 0);
// @harness props=C01,C03,C04,C07 tier=thorough reach=off timeout=400 bound="request 15 (GET_PROTOCOL_FEATURES), header flags 0x1 (version 1), declared size = body size; body bytes, 0..=2 attached descriptors, three 64-bit negotiation words and handler outcome symbolic; one request" stubs="vmm-sys-util raw_recvmsg/raw_sendmsg (ghost stream socket), libc::close + OwnedFd::drop (ghost descriptor table), handle_alloc_error (assume false)"
e_be!(e_be_get_protocol_features_plain, 15, 0x1, 0, 0);
// @harness props=C01,C02,C04,C07 tier=quick thorough_for=C01 reach=off timeout=400 bound="request 16 (SET_PROTOCOL_FEATURES), header flags 0x9 (version 1, NEED_REPLY), declared size = body size; body bytes, 0..=2 attached descriptors, three 64-bit negotiation words and handler outcome symbolic; one request" stubs="vmm-sys-util raw_recvmsg/raw_sendmsg (ghost stream socket), libc::close + OwnedFd::drop (ghost descriptor table), handle_alloc_error (assume false)"
e_be!(e_be_set_protocol_features_nr, 16, 0x9, 0, 0);
// @harness props=C01,C02,C04,C07 tier=quick reach=off timeout=400 bound="request 16 (SET_PROTOCOL_FEATURES), header flags 0x1 (version 1), declared size = body size; body bytes, 0..=2 attached descriptors, three 64-bit negotiation words and handler outcome symbolic; one request" stubs="vmm-sys-util raw_recvmsg/raw_sendmsg (ghost stream socket), libc::close + OwnedFd::drop (ghost descriptor table), handle_alloc_error (assume false)"
e_be!(e_be_set_protocol_features_plain, 16, 0x1, 0, 0);
// @harness props=C01,C03,C04,C07 tier=quick thorough_for=C04 reach=off timeout=400 bound="request 17 (GET_QUEUE_NUM), header flags 0x9 (version 1, NEED_REPLY), declared size = body size; body bytes, 0..=2 attached descriptors, three 64-bit negotiation words and handler outcome symbolic; one request" stubs="vmm-sys-util raw_recvmsg/raw_sendmsg (ghost stream socket), libc::close + OwnedFd::drop (ghost descriptor table), handle_alloc_error (assume false)"
e_be!(e_be_get_queue_num_nr, 17, 0x9, 0, 0);
// @harness props=C01,C03,C04,C07 tier=thorough reach=off timeout=400 bound="request 17 (GET_QUEUE_NUM), header flags 0x1 (version 1), declared size = body size; body bytes, 0..=2 attached descriptors, three 64-bit negotiation words and handler outcome symbolic; one request" stubs="vmm-sys-util raw_recvmsg/raw_sendmsg (ghost stream socket), libc::close + OwnedFd::drop (ghost descriptor table), handle_alloc_error (assume false)"
e_be!(e_be_get_queue_num_plain, 17, 0x1, 0, 0);
// @harness props=C01,C02,C04,C05,C07 tier=quick thorough_for=C01 reach=off timeout=400 bound="request 18 (SET_VRING_ENABLE), header flags 0x9 (version 1, NEED_REPLY), declared size = body size; body bytes, 0..=2 attached descriptors, three 64-bit negotiation words and handler outcome symbolic; one request" stubs="vmm-sys-util raw_recvmsg/raw_sendmsg (ghost stream socket), libc::close + OwnedFd::drop (ghost descriptor table), handle_alloc_error (assume false)"
e_be!(e_be_set_vring_enable_nr, 18, 0x9, 0, 0);
// @harness props=C01,C02,C04,C05,C07 tier=thorough reach=off timeout=400 bound="request 18 (SET_VRING_ENABLE), header flags 0x1 (version 1), declared size = body size; body bytes, 0..=2 attached descriptors, three 64-bit negotiation words and handler outcome symbolic; one request" stubs="vmm-sys-util raw_recvmsg/raw_sendmsg (ghost stream socket), libc::close + OwnedFd::drop (ghost descriptor table), handle_alloc_error (assume false)"
e_be!(e_be_set_vring_enable_plain, 18, 0x1, 0, 0);
// @harness props=C01,C02,C04,C05,C07,C09 tier=quick thorough_for=C04,C01 reach=off timeout=400 bound="request 21 (SET_BACKEND_REQ_FD), header flags 0x9 (version 1, NEED_REPLY), declared size = body size; body bytes, 0..=2 attached descriptors, three 64-bit negotiation words and handler outcome symbolic; one request" stubs="vmm-sys-util raw_recvmsg/raw_sendmsg (ghost stream socket), libc::close + OwnedFd::drop (ghost descriptor table), handle_alloc_error (assume false)"
e_be!(e_be_set_backend_req_fd_nr, 21, 0x9, 0, 0);
// @harness props=C01,C02,C04,C05,C07,C09 tier=thorough reach=off timeout=400 bound="request 21 (SET_BACKEND_REQ_FD), header flags 0x1 (version 1), declared size = body size; body bytes, 0..=2 attached descriptors, three 64-bit negotiation words and handler outcome symbolic; one request" stubs="vmm-sys-util raw_recvmsg/raw_sendmsg (ghost stream socket), libc::close + OwnedFd::drop (ghost descriptor table), handle_alloc_error (assume false)"
e_be!(e_be_set_backend_req_fd_plain, 21, 0x1, 0, 0);
// @harness props=C01,C02,C03,C04,C05,C07 tier=quick reach=off timeout=1200 bound="request 24 (GET_CONFIG), header flags 0x9 (version 1, NEED_REPLY), declared size = body size; body bytes, 0..=2 attached descriptors, three 64-bit negotiation words and handler outcome symbolic; one request" stubs="vmm-sys-util raw_recvmsg/raw_sendmsg (ghost stream socket), libc::close + OwnedFd::drop (ghost descriptor table), handle_alloc_error (assume false)"
e_be!(e_be_get_config_ret4_nr, 24, 0x9, 0, 68);
// @harness props=C01,C02,C03,C04,C05,C07 tier=thorough reach=off timeout=1200 bound="request 24 (GET_CONFIG), header flags 0x1 (version 1), declared size = body size; body bytes, 0..=2 attached descriptors, three 64-bit negotiation words and handler outcome symbolic; one request" stubs="vmm-sys-util raw_recvmsg/raw_sendmsg (ghost stream socket), libc::close + OwnedFd::drop (ghost descriptor table), handle_alloc_error (assume false)"
e_be!(e_be_get_config_ret4_plain, 24, 0x1, 0, 68);
// @harness props=C01,C02,C03,C04,C05,C07 tier=thorough reach=off timeout=1200 bound="request 24 (GET_CONFIG), header flags 0x9 (version 1, NEED_REPLY), declared size = body size; body bytes, 0..=2 attached descriptors, three 64-bit negotiation words and handler outcome symbolic; one request" stubs="vmm-sys-util raw_recvmsg/raw_sendmsg (ghost stream socket), libc::close + OwnedFd::drop (ghost descriptor table), handle_alloc_error (assume false)"
e_be!(e_be_get_config_ret3_nr, 24, 0x9, 0, 52);
// @harness props=C01,C02,C03,C04,C05,C07 tier=thorough reach=off timeout=1200 bound="request 24 (GET_CONFIG), header flags 0x1 (version 1), declared size = body size; body bytes, 0..=2 attached descriptors, three 64-bit negotiation words and handler outcome symbolic; one request" stubs="vmm-sys-util raw_recvmsg/raw_sendmsg (ghost stream socket), libc::close + OwnedFd::drop (ghost descriptor table), handle_alloc_error (assume false)"
e_be!(e_be_get_config_ret3_plain, 24, 0x1, 0, 52);
// @harness props=C01,C02,C03,C04,C05,C07 tier=quick reach=off timeout=1200 bound="request 24 (GET_CONFIG), header flags 0x9 (version 1, NEED_REPLY), declared size = body size; body bytes, 0..=2 attached descriptors, three 64-bit negotiation words and handler outcome symbolic; one request" stubs="vmm-sys-util raw_recvmsg/raw_sendmsg (ghost stream socket), libc::close + OwnedFd::drop (ghost descriptor table), handle_alloc_error (assume false)"
e_be!(e_be_get_config_ret5_nr, 24, 0x9, 0, 84);
// @harness props=C01,C02,C03,C04,C05,C07 tier=thorough reach=off timeout=1200 bound="request 24 (GET_CONFIG), header flags 0x1 (version 1), declared size = body size; body bytes, 0..=2 attached descriptors, three 64-bit negotiation words and handler outcome symbolic; one request" stubs="vmm-sys-util raw_recvmsg/raw_sendmsg (ghost stream socket), libc::close + OwnedFd::drop (ghost descriptor table), handle_alloc_error (assume false)"
e_be!(e_be_get_config_ret5_plain, 24, 0x1, 0, 84);
// @harness props=C01,C02,C03,C04,C05,C07 tier=quick reach=off timeout=1200 mem=28 bound="request 24 (GET_CONFIG), header flags 0x9 (version 1, NEED_REPLY), declared size = body size, body size word concrete (= payload length); body bytes, 0..=2 attached descriptors, three 64-bit negotiation words and handler outcome symbolic; one request" stubs="vmm-sys-util raw_recvmsg/raw_sendmsg (ghost stream socket), libc::close + OwnedFd::drop (ghost descriptor table), handle_alloc_error (assume false)"
e_be!(e_be_get_config_ret5c_nr, 24, 0x9, 0, 596);
// @harness props=C01,C02,C03,C04,C05,C07 tier=thorough reach=off timeout=1200 mem=28 bound="request 24 (GET_CONFIG), header flags 0x1 (version 1), declared size = body size, body size word concrete (= payload length); body bytes, 0..=2 attached descriptors, three 64-bit negotiation words and handler outcome symbolic; one request" stubs="vmm-sys-util raw_recvmsg/raw_sendmsg (ghost stream socket), libc::close + OwnedFd::drop (ghost descriptor table), handle_alloc_error (assume false)"
e_be!(e_be_get_config_ret5c_plain, 24, 0x1, 0, 596);
// @harness props=C01,C02,C03,C04,C05,C07 tier=quick reach=off timeout=1200 bound="request 24 (GET_CONFIG), header flags 0x9 (version 1, NEED_REPLY), declared size = body size; body bytes, 0..=2 attached descriptors, three 64-bit negotiation words and handler outcome symbolic; one request" stubs="vmm-sys-util raw_recvmsg/raw_sendmsg (ghost stream socket), libc::close + OwnedFd::drop (ghost descriptor table), handle_alloc_error (assume false)"
e_be!(e_be_get_config_fail_nr, 24, 0x9, 0, 324);
// @harness props=C01,C02,C03,C04,C05,C07 tier=thorough reach=off timeout=1200 bound="request 24 (GET_CONFIG), header flags 0x1 (version 1), declared size = body size; body bytes, 0..=2 attached descriptors, three 64-bit negotiation words and handler outcome symbolic; one request" stubs="vmm-sys-util raw_recvmsg/raw_sendmsg (ghost stream socket), libc::close + OwnedFd::drop (ghost descriptor table), handle_alloc_error (assume false)"
e_be!(e_be_get_config_fail_plain, 24, 0x1, 0, 324);
// @harness props=C01,C02,C04,C05,C07 tier=quick thorough_for=C01 reach=off timeout=400 bound="request 25 (SET_CONFIG), header flags 0x9 (version 1, NEED_REPLY), declared size = body size; body bytes, 0..=2 attached descriptors, three 64-bit negotiation words and handler outcome symbolic; one request" stubs="vmm-sys-util raw_recvmsg/raw_sendmsg (ghost stream socket), libc::close + OwnedFd::drop (ghost descriptor table), handle_alloc_error (assume false)"
e_be!(e_be_set_config_nr, 25, 0x9, 0, 4);
// @harness props=C01,C02,C04,C05,C07 tier=thorough reach=off timeout=400 bound="request 25 (SET_CONFIG), header flags 0x1 (version 1), declared size = body size; body bytes, 0..=2 attached descriptors, three 64-bit negotiation words and handler outcome symbolic; one request" stubs="vmm-sys-util raw_recvmsg/raw_sendmsg (ghost stream socket), libc::close + OwnedFd::drop (ghost descriptor table), handle_alloc_error (assume false)"
e_be!(e_be_set_config_plain, 25, 0x1, 0, 4);
// @harness props=C01,C02,C03,C04,C05,C07 tier=quick thorough_for=C04 reach=off timeout=400 bound="request 31 (GET_INFLIGHT_FD), header flags 0x9 (version 1, NEED_REPLY), declared size = body size; body bytes, 0..=2 attached descriptors, three 64-bit negotiation words and handler outcome symbolic; one request" stubs="vmm-sys-util raw_recvmsg/raw_sendmsg (ghost stream socket), libc::close + OwnedFd::drop (ghost descriptor table), handle_alloc_error (assume false)"
e_be!(e_be_get_inflight_fd_nr, 31, 0x9, 0, 0);
// @harness props=C01,C02,C03,C04,C05,C07 tier=thorough reach=off timeout=400 bound="request 31 (GET_INFLIGHT_FD), header flags 0x1 (version 1), declared size = body size; body bytes, 0..=2 attached descriptors, three 64-bit negotiation words and handler outcome symbolic; one request" stubs="vmm-sys-util raw_recvmsg/raw_sendmsg (ghost stream socket), libc::close + OwnedFd::drop (ghost descriptor table), handle_alloc_error (assume false)"
e_be!(e_be_get_inflight_fd_plain, 31, 0x1, 0, 0);
// @harness props=C01,C02,C04,C05,C07,C09 tier=quick thorough_for=C04,C01 reach=off timeout=400 bound="request 32 (SET_INFLIGHT_FD), header flags 0x9 (version 1, NEED_REPLY), declared size = body size; body bytes, 0..=2 attached descriptors, three 64-bit negotiation words and handler outcome symbolic; one request" stubs="vmm-sys-util raw_recvmsg/raw_sendmsg (ghost stream socket), libc::close + OwnedFd::drop (ghost descriptor table), handle_alloc_error (assume false)"
e_be!(e_be_set_inflight_fd_nr, 32, 0x9, 0, 0);
// @harness props=C01,C02,C04,C05,C07,C09 tier=thorough reach=off timeout=400 bound="request 32 (SET_INFLIGHT_FD), header flags 0x1 (version 1), declared size = body size; body bytes, 0..=2 attached descriptors, three 64-bit negotiation words and handler outcome symbolic; one request" stubs="vmm-sys-util raw_recvmsg/raw_sendmsg (ghost stream socket), libc::close + OwnedFd::drop (ghost descriptor table), handle_alloc_error (assume false)"
e_be!(e_be_set_inflight_fd_plain, 32, 0x1, 0, 0);
// @harness props=C01,C02,C04,C05,C09 tier=quick thorough_for=C04,C01 reach=off timeout=400 bound="request 33 (GPU_SET_SOCKET), header flags 0x9 (version 1, NEED_REPLY), declared size = body size; body bytes, 0..=2 attached descriptors, three 64-bit negotiation words and handler outcome symbolic; one request" stubs="vmm-sys-util raw_recvmsg/raw_sendmsg (ghost stream socket), libc::close + OwnedFd::drop (ghost descriptor table), handle_alloc_error (assume false)"
e_be!(e_be_gpu_set_socket_nr, 33, 0x9, 0, 0);
// @harness props=C01,C02,C04,C05,C09 tier=thorough reach=off timeout=400 bound="request 33 (GPU_SET_SOCKET), header flags 0x1 (version 1), declared size = body size; body bytes, 0..=2 attached descriptors, three 64-bit negotiation words and handler outcome symbolic; one request" stubs="vmm-sys-util raw_recvmsg/raw_sendmsg (ghost stream socket), libc::close + OwnedFd::drop (ghost descriptor table), handle_alloc_error (assume false)"
e_be!(e_be_gpu_set_socket_plain, 33, 0x1, 0, 0);
// @harness props=C01,C03,C04,C07 tier=quick thorough_for=C01 reach=off timeout=400 bound="request 34 (RESET_DEVICE), header flags 0x9 (version 1, NEED_REPLY), declared size = body size; body bytes, 0..=2 attached descriptors, three 64-bit negotiation words and handler outcome symbolic; one request" stubs="vmm-sys-util raw_recvmsg/raw_sendmsg (ghost stream socket), libc::close + OwnedFd::drop (ghost descriptor table), handle_alloc_error (assume false)"
e_be!(e_be_reset_device_nr, 34, 0x9, 0, 0);
// @harness props=C01,C03,C04,C07 tier=thorough reach=off timeout=400 bound="request 34 (RESET_DEVICE), header flags 0x1 (version 1), declared size = body size; body bytes, 0..=2 attached descriptors, three 64-bit negotiation words and handler outcome symbolic; one request" stubs="vmm-sys-util raw_recvmsg/raw_sendmsg (ghost stream socket), libc::close + OwnedFd::drop (ghost descriptor table), handle_alloc_error (assume false)"
e_be!(e_be_reset_device_plain, 34, 0x1, 0, 0);
// @harness props=C01,C03,C04,C07 tier=quick thorough_for=C04 reach=off timeout=400 bound="request 36 (GET_MAX_MEM_SLOTS), header flags 0x9 (version 1, NEED_REPLY), declared size = body size; body bytes, 0..=2 attached descriptors, three 64-bit negotiation words and handler outcome symbolic; one request" stubs="vmm-sys-util raw_recvmsg/raw_sendmsg (ghost stream socket), libc::close + OwnedFd::drop (ghost descriptor table), handle_alloc_error (assume false)"
e_be!(e_be_get_max_mem_slots_nr, 36, 0x9, 0, 0);
// @harness props=C01,C03,C04,C07 tier=thorough reach=off timeout=400 bound="request 36 (GET_MAX_MEM_SLOTS), header flags 0x1 (version 1), declared size = body size; body bytes, 0..=2 attached descriptors, three 64-bit negotiation words and handler outcome symbolic; one request" stubs="vmm-sys-util raw_recvmsg/raw_sendmsg (ghost stream socket), libc::close + OwnedFd::drop (ghost descriptor table), handle_alloc_error (assume false)"
e_be!(e_be_get_max_mem_slots_plain, 36, 0x1, 0, 0);
// @harness props=C01,C02,C04,C05,C07,C09 tier=quick thorough_for=C01 reach=off timeout=400 bound="request 37 (ADD_MEM_REG), header flags 0x9 (version 1, NEED_REPLY), declared size = body size; body bytes, 0..=2 attached descriptors, three 64-bit negotiation words and handler outcome symbolic; one request" stubs="vmm-sys-util raw_recvmsg/raw_sendmsg (ghost stream socket), libc::close + OwnedFd::drop (ghost descriptor table), handle_alloc_error (assume false)"
e_be!(e_be_add_mem_reg_nr, 37, 0x9, 0, 0);
// @harness props=C01,C02,C04,C05,C07,C09 tier=thorough reach=off timeout=400 bound="request 37 (ADD_MEM_REG), header flags 0x1 (version 1), declared size = body size; body bytes, 0..=2 attached descriptors, three 64-bit negotiation words and handler outcome symbolic; one request" stubs="vmm-sys-util raw_recvmsg/raw_sendmsg (ghost stream socket), libc::close + OwnedFd::drop (ghost descriptor table), handle_alloc_error (assume false)"
e_be!(e_be_add_mem_reg_plain, 37, 0x1, 0, 0);
// @harness props=C01,C02,C04,C05,C07 tier=quick thorough_for=C04,C01 reach=off timeout=400 bound="request 38 (REM_MEM_REG), header flags 0x9 (version 1, NEED_REPLY), declared size = body size; body bytes, 0..=2 attached descriptors, three 64-bit negotiation words and handler outcome symbolic; one request" stubs="vmm-sys-util raw_recvmsg/raw_sendmsg (ghost stream socket), libc::close + OwnedFd::drop (ghost descriptor table), handle_alloc_error (assume false)"
e_be!(e_be_rem_mem_reg_nr, 38, 0x9, 0, 0);
// @harness props=C01,C02,C04,C05,C07 tier=thorough reach=off timeout=400 bound="request 38 (REM_MEM_REG), header flags 0x1 (version 1), declared size = body size; body bytes, 0..=2 attached descriptors, three 64-bit negotiation words and handler outcome symbolic; one request" stubs="vmm-sys-util raw_recvmsg/raw_sendmsg (ghost stream socket), libc::close + OwnedFd::drop (ghost descriptor table), handle_alloc_error (assume false)"
e_be!(e_be_rem_mem_reg_plain, 38, 0x1, 0, 0);
// @harness props=C01,C02,C03,C04,C05,C07 tier=quick reach=off timeout=400 bound="request 41 (GET_SHARED_OBJECT), header flags 0x9 (version 1, NEED_REPLY), declared size = body size; body bytes, 0..=2 attached descriptors, three 64-bit negotiation words and handler outcome symbolic; one request" stubs="vmm-sys-util raw_recvmsg/raw_sendmsg (ghost stream socket), libc::close + OwnedFd::drop (ghost descriptor table), handle_alloc_error (assume false)"
e_be!(e_be_get_shared_object_nr, 41, 0x9, 0, 0);
// @harness props=C01,C02,C03,C04,C05,C07 tier=thorough reach=off timeout=400 bound="request 41 (GET_SHARED_OBJECT), header flags 0x1 (version 1), declared size = body size; body bytes, 0..=2 attached descriptors, three 64-bit negotiation words and handler outcome symbolic; one request" stubs="vmm-sys-util raw_recvmsg/raw_sendmsg (ghost stream socket), libc::close + OwnedFd::drop (ghost descriptor table), handle_alloc_error (assume false)"
e_be!(e_be_get_shared_object_plain, 41, 0x1, 0, 0);
// @harness props=C01,C02,C03,C04,C05,C09 tier=quick reach=off timeout=400 bound="request 42 (SET_DEVICE_STATE_FD), header flags 0x9 (version 1, NEED_REPLY), declared size = body size; body bytes, 0..=2 attached descriptors, three 64-bit negotiation words and handler outcome symbolic; one request" stubs="vmm-sys-util raw_recvmsg/raw_sendmsg (ghost stream socket), libc::close + OwnedFd::drop (ghost descriptor table), handle_alloc_error (assume false)"
e_be!(e_be_set_device_state_fd_nr, 42, 0x9, 0, 0);
// @harness props=C01,C02,C03,C04,C05,C09 tier=thorough reach=off timeout=400 bound="request 42 (SET_DEVICE_STATE_FD), header flags 0x1 (version 1), declared size = body size; body bytes, 0..=2 attached descriptors, three 64-bit negotiation words and handler outcome symbolic; one request" stubs="vmm-sys-util raw_recvmsg/raw_sendmsg (ghost stream socket), libc::close + OwnedFd::drop (ghost descriptor table), handle_alloc_error (assume false)"
e_be!(e_be_set_device_state_fd_plain, 42, 0x1, 0, 0);
// @harness props=C01,C03,C04 tier=quick reach=off timeout=400 bound="request 43 (CHECK_DEVICE_STATE), header flags 0x9 (version 1, NEED_REPLY), declared size = body size; body bytes, 0..=2 attached descriptors, three 64-bit negotiation words and handler outcome symbolic; one request" stubs="vmm-sys-util raw_recvmsg/raw_sendmsg (ghost stream socket), libc::close + OwnedFd::drop (ghost descriptor table), handle_alloc_error (assume false)"
e_be!(e_be_check_device_state_nr, 43, 0x9, 0, 0);
// @harness props=C01,C03,C04 tier=thorough reach=off timeout=400 bound="request 43 (CHECK_DEVICE_STATE), header flags 0x1 (version 1), declared size = body size; body bytes, 0..=2 attached descriptors, three 64-bit negotiation words and handler outcome symbolic; one request" stubs="vmm-sys-util raw_recvmsg/raw_sendmsg (ghost stream socket), libc::close + OwnedFd::drop (ghost descriptor table), handle_alloc_error (assume false)"
e_be!(e_be_check_device_state_plain, 43, 0x1, 0, 0);
// @harness props=C01,C03,C04,C07 tier=quick thorough_for=C04 reach=off timeout=400 bound="request 44 (GET_SHMEM_CONFIG), header flags 0x9 (version 1, NEED_REPLY), declared size = body size; body bytes, 0..=2 attached descriptors, three 64-bit negotiation words and handler outcome symbolic; one request" stubs="vmm-sys-util raw_recvmsg/raw_sendmsg (ghost stream socket), libc::close + OwnedFd::drop (ghost descriptor table), handle_alloc_error (assume false)"
e_be!(e_be_get_shmem_config_nr, 44, 0x9, 0, 0);
// @harness props=C01,C03,C04,C07 tier=thorough reach=off timeout=400 bound="request 44 (GET_SHMEM_CONFIG), header flags 0x1 (version 1), declared size = body size; body bytes, 0..=2 attached descriptors, three 64-bit negotiation words and handler outcome symbolic; one request" stubs="vmm-sys-util raw_recvmsg/raw_sendmsg (ghost stream socket), libc::close + OwnedFd::drop (ghost descriptor table), handle_alloc_error (assume false)"
e_be!(e_be_get_shmem_config_plain, 44, 0x1, 0, 0);
// @harness props=C01,C02,C03,C04,C05,C07,C09 tier=quick reach=off timeout=400 bound="request 6 (SET_LOG_BASE), header flags 0x9 (version 1, NEED_REPLY), declared size = body size, handler succeeds (concrete outcome); body bytes, 0..=2 attached descriptors, three 64-bit negotiation words and handler outcome symbolic; one request" stubs="vmm-sys-util raw_recvmsg/raw_sendmsg (ghost stream socket), libc::close + OwnedFd::drop (ghost descriptor table), handle_alloc_error (assume false)"
e_be!(e_be_set_log_base_ok_nr, 6, 0x9, 0, 1);
// @harness props=C01,C02,C03,C04,C05,C07,C09 tier=quick reach=off timeout=400 bound="request 6 (SET_LOG_BASE), header flags 0x9 (version 1, NEED_REPLY), declared size = body size, handler fails (concrete outcome); body bytes, 0..=2 attached descriptors, three 64-bit negotiation words and handler outcome symbolic; one request" stubs="vmm-sys-util raw_recvmsg/raw_sendmsg (ghost stream socket), libc::close + OwnedFd::drop (ghost descriptor table), handle_alloc_error (assume false)"
e_be!(e_be_set_log_base_fail_nr, 6, 0x9, 0, 2);
// @harness props=C04,C05,C09 tier=thorough reach=off timeout=400 bound="request 2 with the REPLY bit set (flags 0xd): must be rejected; body bytes, 0..=2 attached descriptors, three 64-bit negotiation words and handler outcome symbolic; one request" stubs="vmm-sys-util raw_recvmsg/raw_sendmsg (ghost stream socket), libc::close + OwnedFd::drop (ghost descriptor table), handle_alloc_error (assume false)"
e_be!(e_be_set_features_replybit, 2, 0xd, 0, 0);
// @harness props=C04,C05,C09 tier=thorough reach=off timeout=400 bound="request 2 with declared size one byte short; body bytes, 0..=2 attached descriptors, three 64-bit negotiation words and handler outcome symbolic; one request" stubs="vmm-sys-util raw_recvmsg/raw_sendmsg (ghost stream socket), libc::close + OwnedFd::drop (ghost descriptor table), handle_alloc_error (assume false)"
e_be!(e_be_set_features_short, 2, 0x9, -1, 0);
// @harness props=C04,C05,C09 tier=thorough reach=off timeout=400 bound="request 2 with declared size one byte long; body bytes, 0..=2 attached descriptors, three 64-bit negotiation words and handler outcome symbolic; one request" stubs="vmm-sys-util raw_recvmsg/raw_sendmsg (ghost stream socket), libc::close + OwnedFd::drop (ghost descriptor table), handle_alloc_error (assume false)"
e_be!(e_be_set_features_long, 2, 0x9, 1, 0);
// @harness props=C04,C05,C09 tier=thorough reach=off timeout=400 bound="request 8 with the REPLY bit set (flags 0xd): must be rejected; body bytes, 0..=2 attached descriptors, three 64-bit negotiation words and handler outcome symbolic; one request" stubs="vmm-sys-util raw_recvmsg/raw_sendmsg (ghost stream socket), libc::close + OwnedFd::drop (ghost descriptor table), handle_alloc_error (assume false)"
e_be!(e_be_set_vring_num_replybit, 8, 0xd, 0, 0);
// @harness props=C04,C05,C09 tier=thorough reach=off timeout=400 bound="request 8 with declared size one byte short; body bytes, 0..=2 attached descriptors, three 64-bit negotiation words and handler outcome symbolic; one request" stubs="vmm-sys-util raw_recvmsg/raw_sendmsg (ghost stream socket), libc::close + OwnedFd::drop (ghost descriptor table), handle_alloc_error (assume false)"
e_be!(e_be_set_vring_num_short, 8, 0x9, -1, 0);
// @harness props=C04,C05,C09 tier=thorough reach=off timeout=400 bound="request 8 with declared size one byte long; body bytes, 0..=2 attached descriptors, three 64-bit negotiation words and handler outcome symbolic; one request" stubs="vmm-sys-util raw_recvmsg/raw_sendmsg (ghost stream socket), libc::close + OwnedFd::drop (ghost descriptor table), handle_alloc_error (assume false)"
e_be!(e_be_set_vring_num_long, 8, 0x9, 1, 0);
// @harness props=C04,C05,C09 tier=thorough reach=off timeout=400 bound="request 9 with the REPLY bit set (flags 0xd): must be rejected; body bytes, 0..=2 attached descriptors, three 64-bit negotiation words and handler outcome symbolic; one request" stubs="vmm-sys-util raw_recvmsg/raw_sendmsg (ghost stream socket), libc::close + OwnedFd::drop (ghost descriptor table), handle_alloc_error (assume false)"
e_be!(e_be_set_vring_addr_replybit, 9, 0xd, 0, 0);
// @harness props=C04,C05,C09 tier=thorough reach=off timeout=400 bound="request 9 with declared size one byte short; body bytes, 0..=2 attached descriptors, three 64-bit negotiation words and handler outcome symbolic; one request" stubs="vmm-sys-util raw_recvmsg/raw_sendmsg (ghost stream socket), libc::close + OwnedFd::drop (ghost descriptor table), handle_alloc_error (assume false)"
e_be!(e_be_set_vring_addr_short, 9, 0x9, -1, 0);
// @harness props=C04,C05,C09 tier=thorough reach=off timeout=400 bound="request 9 with declared size one byte long; body bytes, 0..=2 attached descriptors, three 64-bit negotiation words and handler outcome symbolic; one request" stubs="vmm-sys-util raw_recvmsg/raw_sendmsg (ghost stream socket), libc::close + OwnedFd::drop (ghost descriptor table), handle_alloc_error (assume false)"
e_be!(e_be_set_vring_addr_long, 9, 0x9, 1, 0);
// @harness props=C04,C05,C09 tier=quick reach=off timeout=400 bound="request 12 with the REPLY bit set (flags 0xd): must be rejected; body bytes, 0..=2 attached descriptors, three 64-bit negotiation words and handler outcome symbolic; one request" stubs="vmm-sys-util raw_recvmsg/raw_sendmsg (ghost stream socket), libc::close + OwnedFd::drop (ghost descriptor table), handle_alloc_error (assume false)"
e_be!(e_be_set_vring_kick_replybit, 12, 0xd, 0, 0);
// @harness props=C04,C05,C09 tier=quick reach=off timeout=400 bound="request 12 with declared size one byte short; body bytes, 0..=2 attached descriptors, three 64-bit negotiation words and handler outcome symbolic; one request" stubs="vmm-sys-util raw_recvmsg/raw_sendmsg (ghost stream socket), libc::close + OwnedFd::drop (ghost descriptor table), handle_alloc_error (assume false)"
e_be!(e_be_set_vring_kick_short, 12, 0x9, -1, 0);
// @harness props=C04,C05,C09 tier=quick reach=off timeout=400 bound="request 12 with declared size one byte long; body bytes, 0..=2 attached descriptors, three 64-bit negotiation words and handler outcome symbolic; one request" stubs="vmm-sys-util raw_recvmsg/raw_sendmsg (ghost stream socket), libc::close + OwnedFd::drop (ghost descriptor table), handle_alloc_error (assume false)"
e_be!(e_be_set_vring_kick_long, 12, 0x9, 1, 0);
// @harness props=C04,C05,C09 tier=thorough reach=off timeout=400 bound="request 18 with the REPLY bit set (flags 0xd): must be rejected; body bytes, 0..=2 attached descriptors, three 64-bit negotiation words and handler outcome symbolic; one request" stubs="vmm-sys-util raw_recvmsg/raw_sendmsg (ghost stream socket), libc::close + OwnedFd::drop (ghost descriptor table), handle_alloc_error (assume false)"
e_be!(e_be_set_vring_enable_replybit, 18, 0xd, 0, 0);
// @harness props=C04,C05,C09 tier=thorough reach=off timeout=400 bound="request 18 with declared size one byte short; body bytes, 0..=2 attached descriptors, three 64-bit negotiation words and handler outcome symbolic; one request" stubs="vmm-sys-util raw_recvmsg/raw_sendmsg (ghost stream socket), libc::close + OwnedFd::drop (ghost descriptor table), handle_alloc_error (assume false)"
e_be!(e_be_set_vring_enable_short, 18, 0x9, -1, 0);
// @harness props=C04,C05,C09 tier=thorough reach=off timeout=400 bound="request 18 with declared size one byte long; body bytes, 0..=2 attached descriptors, three 64-bit negotiation words and handler outcome symbolic; one request" stubs="vmm-sys-util raw_recvmsg/raw_sendmsg (ghost stream socket), libc::close + OwnedFd::drop (ghost descriptor table), handle_alloc_error (assume false)"
e_be!(e_be_set_vring_enable_long, 18, 0x9, 1, 0);
// @harness props=C04,C05,C09 tier=thorough reach=off timeout=400 bound="request 25 with the REPLY bit set (flags 0xd): must be rejected; body bytes, 0..=2 attached descriptors, three 64-bit negotiation words and handler outcome symbolic; one request" stubs="vmm-sys-util raw_recvmsg/raw_sendmsg (ghost stream socket), libc::close + OwnedFd::drop (ghost descriptor table), handle_alloc_error (assume false)"
e_be!(e_be_set_config_replybit, 25, 0xd, 0, 4);
// @harness props=C04,C05,C09 tier=thorough reach=off timeout=400 bound="request 37 with the REPLY bit set (flags 0xd): must be rejected; body bytes, 0..=2 attached descriptors, three 64-bit negotiation words and handler outcome symbolic; one request" stubs="vmm-sys-util raw_recvmsg/raw_sendmsg (ghost stream socket), libc::close + OwnedFd::drop (ghost descriptor table), handle_alloc_error (assume false)"
e_be!(e_be_add_mem_reg_replybit, 37, 0xd, 0, 0);
// @harness props=C04,C05,C09 tier=thorough reach=off timeout=400 bound="request 37 with declared size one byte short; body bytes, 0..=2 attached descriptors, three 64-bit negotiation words and handler outcome symbolic; one request" stubs="vmm-sys-util raw_recvmsg/raw_sendmsg (ghost stream socket), libc::close + OwnedFd::drop (ghost descriptor table), handle_alloc_error (assume false)"
e_be!(e_be_add_mem_reg_short, 37, 0x9, -1, 0);
// @harness props=C04,C05,C09 tier=thorough reach=off timeout=400 bound="request 37 with declared size one byte long; body bytes, 0..=2 attached descriptors, three 64-bit negotiation words and handler outcome symbolic; one request" stubs="vmm-sys-util raw_recvmsg/raw_sendmsg (ghost stream socket), libc::close + OwnedFd::drop (ghost descriptor table), handle_alloc_error (assume false)"
e_be!(e_be_add_mem_reg_long, 37, 0x9, 1, 0);
// @harness props=C04,C05,C09 tier=thorough reach=off timeout=400 bound="request 1 with the REPLY bit set (flags 0xd): must be rejected; body bytes, 0..=2 attached descriptors, three 64-bit negotiation words and handler outcome symbolic; one request" stubs="vmm-sys-util raw_recvmsg/raw_sendmsg (ghost stream socket), libc::close + OwnedFd::drop (ghost descriptor table), handle_alloc_error (assume false)"
e_be!(e_be_get_features_replybit, 1, 0xd, 0, 0);
// @harness props=C04,C05,C09 tier=thorough reach=off timeout=400 bound="request 1 with declared size one byte long; body bytes, 0..=2 attached descriptors, three 64-bit negotiation words and handler outcome symbolic; one request" stubs="vmm-sys-util raw_recvmsg/raw_sendmsg (ghost stream socket), libc::close + OwnedFd::drop (ghost descriptor table), handle_alloc_error (assume false)"
e_be!(e_be_get_features_long, 1, 0x9, 1, 0);
// @harness props=C04,C05,C09 tier=thorough reach=off timeout=400 bound="request 11 with the REPLY bit set (flags 0xd): must be rejected; body bytes, 0..=2 attached descriptors, three 64-bit negotiation words and handler outcome symbolic; one request" stubs="vmm-sys-util raw_recvmsg/raw_sendmsg (ghost stream socket), libc::close + OwnedFd::drop (ghost descriptor table), handle_alloc_error (assume false)"
e_be!(e_be_get_vring_base_replybit, 11, 0xd, 0, 0);
// @harness props=C04,C05,C09 tier=thorough reach=off timeout=400 bound="request 11 with declared size one byte short; body bytes, 0..=2 attached descriptors, three 64-bit negotiation words and handler outcome symbolic; one request" stubs="vmm-sys-util raw_recvmsg/raw_sendmsg (ghost stream socket), libc::close + OwnedFd::drop (ghost descriptor table), handle_alloc_error (assume false)"
e_be!(e_be_get_vring_base_short, 11, 0x9, -1, 0);
// @harness props=C04,C05,C09 tier=thorough reach=off timeout=400 bound="request 11 with declared size one byte long; body bytes, 0..=2 attached descriptors, three 64-bit negotiation words and handler outcome symbolic; one request" stubs="vmm-sys-util raw_recvmsg/raw_sendmsg (ghost stream socket), libc::close + OwnedFd::drop (ghost descriptor table), handle_alloc_error (assume false)"
e_be!(e_be_get_vring_base_long, 11, 0x9, 1, 0);
// @harness props=C04,C05,C09 tier=quick reach=off timeout=400 bound="request 7 (SET_LOG_FD) which this server does not implement: error, no handler call, nothing written; body bytes, 0..=2 attached descriptors, three 64-bit negotiation words and handler outcome symbolic; one request" stubs="vmm-sys-util raw_recvmsg/raw_sendmsg (ghost stream socket), libc::close + OwnedFd::drop (ghost descriptor table), handle_alloc_error (assume false)"
e_be!(e_be_unserved_set_log_fd, 7, 0x9, 0, 0);
// @harness props=C04,C05,C09 tier=thorough reach=off timeout=400 bound="request 19 (SEND_RARP) which this server does not implement: error, no handler call, nothing written; body bytes, 0..=2 attached descriptors, three 64-bit negotiation words and handler outcome symbolic; one request" stubs="vmm-sys-util raw_recvmsg/raw_sendmsg (ghost stream socket), libc::close + OwnedFd::drop (ghost descriptor table), handle_alloc_error (assume false)"
e_be!(e_be_unserved_send_rarp, 19, 0x9, 0, 0);
// @harness props=C04,C05,C09 tier=thorough reach=off timeout=400 bound="request 20 (NET_SET_MTU) which this server does not implement: error, no handler call, nothing written; body bytes, 0..=2 attached descriptors, three 64-bit negotiation words and handler outcome symbolic; one request" stubs="vmm-sys-util raw_recvmsg/raw_sendmsg (ghost stream socket), libc::close + OwnedFd::drop (ghost descriptor table), handle_alloc_error (assume false)"
e_be!(e_be_unserved_net_set_mtu, 20, 0x9, 0, 0);
// @harness props=C04,C05,C09 tier=thorough reach=off timeout=400 bound="request 22 (IOTLB_MSG) which this server does not implement: error, no handler call, nothing written; body bytes, 0..=2 attached descriptors, three 64-bit negotiation words and handler outcome symbolic; one request" stubs="vmm-sys-util raw_recvmsg/raw_sendmsg (ghost stream socket), libc::close + OwnedFd::drop (ghost descriptor table), handle_alloc_error (assume false)"
e_be!(e_be_unserved_iotlb_msg, 22, 0x9, 0, 0);
// @harness props=C04,C05,C09 tier=thorough reach=off timeout=400 bound="request 23 (SET_VRING_ENDIAN) which this server does not implement: error, no handler call, nothing written; body bytes, 0..=2 attached descriptors, three 64-bit negotiation words and handler outcome symbolic; one request" stubs="vmm-sys-util raw_recvmsg/raw_sendmsg (ghost stream socket), libc::close + OwnedFd::drop (ghost descriptor table), handle_alloc_error (assume false)"
e_be!(e_be_unserved_set_vring_endian, 23, 0x9, 0, 0);
// @harness props=C04,C05,C09 tier=thorough reach=off timeout=400 bound="request 26 (CREATE_CRYPTO) which this server does not implement: error, no handler call, nothing written; body bytes, 0..=2 attached descriptors, three 64-bit negotiation words and handler outcome symbolic; one request" stubs="vmm-sys-util raw_recvmsg/raw_sendmsg (ghost stream socket), libc::close + OwnedFd::drop (ghost descriptor table), handle_alloc_error (assume false)"
e_be!(e_be_unserved_create_crypto, 26, 0x9, 0, 0);
// @harness props=C04,C05,C09 tier=thorough reach=off timeout=400 bound="request 27 (CLOSE_CRYPTO) which this server does not implement: error, no handler call, nothing written; body bytes, 0..=2 attached descriptors, three 64-bit negotiation words and handler outcome symbolic; one request" stubs="vmm-sys-util raw_recvmsg/raw_sendmsg (ghost stream socket), libc::close + OwnedFd::drop (ghost descriptor table), handle_alloc_error (assume false)"
e_be!(e_be_unserved_close_crypto, 27, 0x9, 0, 0);
// @harness props=C04,C05,C09 tier=thorough reach=off timeout=400 bound="request 28 (POSTCOPY_ADVISE) which this server does not implement: error, no handler call, nothing written; body bytes, 0..=2 attached descriptors, three 64-bit negotiation words and handler outcome symbolic; one request" stubs="vmm-sys-util raw_recvmsg/raw_sendmsg (ghost stream socket), libc::close + OwnedFd::drop (ghost descriptor table), handle_alloc_error (assume false)"
e_be!(e_be_unserved_postcopy_advise, 28, 0x9, 0, 0);
// @harness props=C04,C05,C09 tier=thorough reach=off timeout=400 bound="request 29 (POSTCOPY_LISTEN) which this server does not implement: error, no handler call, nothing written; body bytes, 0..=2 attached descriptors, three 64-bit negotiation words and handler outcome symbolic; one request" stubs="vmm-sys-util raw_recvmsg/raw_sendmsg (ghost stream socket), libc::close + OwnedFd::drop (ghost descriptor table), handle_alloc_error (assume false)"
e_be!(e_be_unserved_postcopy_listen, 29, 0x9, 0, 0);
// @harness props=C04,C05,C09 tier=thorough reach=off timeout=400 bound="request 30 (POSTCOPY_END) which this server does not implement: error, no handler call, nothing written; body bytes, 0..=2 attached descriptors, three 64-bit negotiation words and handler outcome symbolic; one request" stubs="vmm-sys-util raw_recvmsg/raw_sendmsg (ghost stream socket), libc::close + OwnedFd::drop (ghost descriptor table), handle_alloc_error (assume false)"
e_be!(e_be_unserved_postcopy_end, 30, 0x9, 0, 0);
// @harness props=C04,C05,C09 tier=thorough reach=off timeout=400 bound="request 35 (VRING_KICK) which this server does not implement: error, no handler call, nothing written; body bytes, 0..=2 attached descriptors, three 64-bit negotiation words and handler outcome symbolic; one request" stubs="vmm-sys-util raw_recvmsg/raw_sendmsg (ghost stream socket), libc::close + OwnedFd::drop (ghost descriptor table), handle_alloc_error (assume false)"
e_be!(e_be_unserved_vring_kick, 35, 0x9, 0, 0);
// @harness props=C04,C05,C09 tier=thorough reach=off timeout=400 bound="request 39 (SET_STATUS) which this server does not implement: error, no handler call, nothing written; body bytes, 0..=2 attached descriptors, three 64-bit negotiation words and handler outcome symbolic; one request" stubs="vmm-sys-util raw_recvmsg/raw_sendmsg (ghost stream socket), libc::close + OwnedFd::drop (ghost descriptor table), handle_alloc_error (assume false)"
e_be!(e_be_unserved_set_status, 39, 0x9, 0, 0);
// @harness props=C04,C05,C09 tier=thorough reach=off timeout=400 bound="request 40 (GET_STATUS) which this server does not implement: error, no handler call, nothing written; body bytes, 0..=2 attached descriptors, three 64-bit negotiation words and handler outcome symbolic; one request" stubs="vmm-sys-util raw_recvmsg/raw_sendmsg (ghost stream socket), libc::close + OwnedFd::drop (ghost descriptor table), handle_alloc_error (assume false)"
e_be!(e_be_unserved_get_status, 40, 0x9, 0, 0);
