// harnesses for vub_lib
