// Child module of the vhost-user-backend crate root: ghost kernel for the daemon-side harnesses
// (epoll interest lists, eventfd counters, descriptor table) and the recording device backend.
// Everything here is part of the claims of C11/C12/C13/C14/C15/C17 (DESIGN.md 3.2).
use std::os::unix::io::{AsRawFd, RawFd};
use vmm_sys_util::epoll::{ControlOperation, Epoll, EpollEvent, EventSet};
use vmm_sys_util::event::{EventConsumer, EventNotifier};

pub(crate) const NREG: usize = 6; // interest-list entries tracked (over all epoll instances)
pub(crate) const NFD: usize = 8; // eventfds tracked: descriptor numbers FD0..FD0+NFD
pub(crate) const FD0: RawFd = 200;

pub(crate) struct VGhost {
    // epoll interest lists: (used, epoll fd, watched fd, user data)
    pub reg_used: [bool; NREG],
    pub reg_ep: [RawFd; NREG],
    pub reg_fd: [RawFd; NREG],
    pub reg_data: [u64; NREG],
    pub reg_overflow: bool,
    // eventfd counters (kicks raised and not yet consumed), notify counts (call fds)
    pub counter: [u32; NFD],
    pub notified: [u32; NFD],
    pub consumed_empty: bool, // a consume() on a zero counter (would block / EAGAIN on a real eventfd)
    pub closed: [bool; NFD],
    pub double_close: bool,
    // recording device backend
    pub num_queues: usize,
    pub max_queue_size: usize,
    pub features: u64,
    pub he_calls: u32, // handle_event invocations
    pub he_event: u16,
    pub he_thread: usize,
    pub he_nvrings: usize,
    pub he_ring_id: usize, // identity of vrings[device_event] (address of its shared state)
    pub he_ring_active: bool, // was that ring started (ready) and enabled when the handler ran
    pub acked: u64,
    pub acked_calls: u32,
    pub event_idx: bool,
    pub event_idx_calls: u32,
    pub reset_calls: u32,
    pub wait_calls: u32,
    pub wait_data0: u64,
    pub wait_data1: u64,
    pub marker: u64,
}
pub(crate) static mut VG: VGhost = VGhost {
    reg_used: [false; NREG], reg_ep: [-1; NREG], reg_fd: [-1; NREG], reg_data: [0; NREG], reg_overflow: false,
    counter: [0; NFD], notified: [0; NFD], consumed_empty: false, closed: [false; NFD], double_close: false,
    num_queues: 2, max_queue_size: 256, features: 0, he_calls: 0, he_event: 0, he_thread: 0, he_nvrings: 0,
    he_ring_id: 0, he_ring_active: false, acked: 0, acked_calls: 0, event_idx: false, event_idx_calls: 0, reset_calls: 0, wait_calls: 0, wait_data0: 0, wait_data1: 0,
    marker: 0x7675_6220_6768_6f73,
};
#[allow(static_mut_refs)]
pub(crate) fn vg() -> &'static mut VGhost {
    // SAFETY: single-threaded harness
    unsafe { &mut VG }
}

// NOTE: every scan over the (fixed-size) ghost tables is unrolled by macro: a loop would force a larger
// #[kani::unwind], and the unwind bound also multiplies the cost of every drop-glue recursion in the code
// under test.
macro_rules! each_reg {
    ($i:ident, $body:block) => {
        { let $i = 0usize; $body }
        { let $i = 1usize; $body }
        { let $i = 2usize; $body }
        { let $i = 3usize; $body }
        { let $i = 4usize; $body }
        { let $i = 5usize; $body }
    };
}
/// is (ep, fd) in the interest list of ep; returns the registered data
pub(crate) fn registered(ep: RawFd, fd: RawFd) -> Option<u64> {
    let g = vg();
    let mut out = None;
    each_reg!(i, {
        if out.is_none() && g.reg_used[i] && g.reg_ep[i] == ep && g.reg_fd[i] == fd {
            out = Some(g.reg_data[i]);
        }
    });
    out
}
pub(crate) fn registrations_of(fd: RawFd) -> usize {
    let g = vg();
    let mut n = 0;
    each_reg!(i, {
        if g.reg_used[i] && g.reg_fd[i] == fd {
            n += 1;
        }
    });
    n
}

/// stub for Epoll::ctl.  Linux semantics: ADD of a present fd is EEXIST, DEL of an absent one ENOENT.
/// The code under test deliberately ignores exactly these two outcomes, so they are reported as Ok
/// (an io::Error value on this path makes CBMC explore the io::Error drop glue at every later drop).
pub(crate) fn ghost_epoll_ctl(ep: &Epoll, op: ControlOperation, fd: RawFd, ev: EpollEvent) -> std::io::Result<()> {
    let g = vg();
    let epfd = ep.as_raw_fd();
    let mut free = NREG;
    let mut found = NREG;
    each_reg!(i, {
        if g.reg_used[i] && g.reg_ep[i] == epfd && g.reg_fd[i] == fd {
            found = i;
        }
        if !g.reg_used[i] && free == NREG {
            free = i;
        }
    });
    match op {
        ControlOperation::Add => {
            if found == NREG {
                if free == NREG {
                    g.reg_overflow = true;
                } else {
                    g.reg_used[free] = true;
                    g.reg_ep[free] = epfd;
                    g.reg_fd[free] = fd;
                    g.reg_data[free] = ev.data();
                }
            }
        }
        ControlOperation::Delete => {
            if found != NREG {
                g.reg_used[found] = false;
            }
        }
        _ => {}
    }
    Ok(())
}

fn slot(fd: RawFd) -> Option<usize> {
    if fd >= FD0 && fd < FD0 + NFD as RawFd { Some((fd - FD0) as usize) } else { None }
}
/// stub for EventConsumer::consume (eventfd read: returns the counter and resets it)
pub(crate) fn ghost_consume(c: &EventConsumer) -> Result<(), std::io::Error> {
    if let Some(k) = slot(c.as_raw_fd()) {
        let g = vg();
        if g.counter[k] == 0 {
            g.consumed_empty = true;
        }
        g.counter[k] = 0;
    }
    Ok(())
}
/// stub for EventNotifier::notify (eventfd write)
pub(crate) fn ghost_notify(n: &EventNotifier) -> Result<(), std::io::Error> {
    if let Some(k) = slot(n.as_raw_fd()) {
        vg().notified[k] += 1;
    }
    Ok(())
}
/// closing a descriptor removes it from every interest list (Linux: when the last reference to the open
/// file goes away; the model gives the daemon the only reference)
pub(crate) fn ghost_fd_closed(fd: RawFd) {
    let g = vg();
    if let Some(k) = slot(fd) {
        if g.closed[k] {
            g.double_close = true;
        }
        g.closed[k] = true;
    }
    each_reg!(i, {
        if g.reg_used[i] && g.reg_fd[i] == fd {
            g.reg_used[i] = false;
        }
    });
}
pub(crate) fn ghost_ownedfd_drop(fd: &mut std::os::fd::OwnedFd) {
    ghost_fd_closed(fd.as_raw_fd());
}
pub(crate) unsafe extern "C" fn ghost_close(fd: libc::c_int) -> libc::c_int {
    ghost_fd_closed(fd);
    0
}
/// stubs for vmm-sys-util's raw_sendmsg / raw_recvmsg used by the backend-request channel harness (C14):
/// a send records the header's flags word and is accepted completely; a receive finds the stream closed
pub(crate) static mut TXG: (u32, u32, u64) = (0, 0, 0x7478_675f_7675_6231); // (send calls, flags word of the last header)
pub(crate) fn ghost_sendmsg<D: vmm_sys_util::sock_ctrl_msg::IntoIovec>(_fd: RawFd, out_data: &[D], _out_fds: &[RawFd]) -> vmm_sys_util::errno::Result<usize> {
    let mut total = 0usize;
    // SAFETY: single-threaded harness; the first iovec is the 12-byte message header
    unsafe {
        TXG.0 += 1;
        if out_data.len() > 0 && out_data[0].size() >= 12 {
            TXG.1 = std::ptr::read_unaligned((out_data[0].as_ptr() as *const u8).add(4) as *const u32);
        }
    }
    if out_data.len() > 0 { total += out_data[0].size(); }
    if out_data.len() > 1 { total += out_data[1].size(); }
    if out_data.len() > 2 { total += out_data[2].size(); }
    Ok(total)
}
pub(crate) unsafe fn ghost_recvmsg_closed(_fd: RawFd, _iovecs: &mut [libc::iovec], _in_fds: &mut [RawFd]) -> vmm_sys_util::errno::Result<(usize, usize)> {
    Ok((0, 0))
}

/// stubs for std's lock acquisition: in a single-threaded harness `lock()` on a free lock is `try_lock()`,
/// and on a lock this thread already holds it never returns (reported as self-deadlock).  They replace the
/// futex slow paths, which are expensive to encode and irrelevant here.
pub(crate) fn ghost_mutex_lock<T: ?Sized>(m: &std::sync::Mutex<T>) -> std::sync::LockResult<std::sync::MutexGuard<'_, T>> {
    match m.try_lock() {
        Ok(guard) => Ok(guard),
        Err(std::sync::TryLockError::Poisoned(p)) => Err(p),
        Err(std::sync::TryLockError::WouldBlock) => {
            assert!(false, "lock taken while this thread already holds it (self-deadlock)");
            kani::assume(false);
            unreachable!()
        }
    }
}
pub(crate) fn ghost_rwlock_read<T: ?Sized>(m: &std::sync::RwLock<T>) -> std::sync::LockResult<std::sync::RwLockReadGuard<'_, T>> {
    match m.try_read() {
        Ok(guard) => Ok(guard),
        Err(std::sync::TryLockError::Poisoned(p)) => Err(p),
        Err(std::sync::TryLockError::WouldBlock) => {
            assert!(false, "read lock requested while this thread holds the write lock (self-deadlock)");
            kani::assume(false);
            unreachable!()
        }
    }
}
pub(crate) fn ghost_rwlock_write<T: ?Sized>(m: &std::sync::RwLock<T>) -> std::sync::LockResult<std::sync::RwLockWriteGuard<'_, T>> {
    match m.try_write() {
        Ok(guard) => Ok(guard),
        Err(std::sync::TryLockError::Poisoned(p)) => Err(p),
        Err(std::sync::TryLockError::WouldBlock) => {
            assert!(false, "write lock requested while this thread already holds the lock (self-deadlock)");
            kani::assume(false);
            unreachable!()
        }
    }
}
pub(crate) fn ghost_alloc_error(_l: std::alloc::Layout) -> ! {
    kani::assume(false);
    loop {}
}
/// stub for Epoll::wait used by the run() harness: the n-th call reports the scripted event (level
/// triggered readiness of one descriptor); scripted data words live in the ghost
pub(crate) fn ghost_epoll_wait(_ep: &Epoll, _timeout: i32, events: &mut [EpollEvent]) -> std::io::Result<usize> {
    let g = vg();
    let data = if g.wait_calls == 0 { g.wait_data0 } else { g.wait_data1 };
    g.wait_calls += 1;
    events[0] = EpollEvent::new(EventSet::IN, data);
    Ok(1)
}
/// stub for alloc::vec::from_elem in the run() harness only: the worker's 100-entry event buffer is created
/// with vec![elem; 100], a 100-iteration clone loop; unwinding it 100 times also unwinds every drop-glue
/// recursion 100 deep.  The buffer is only ever written by epoll_wait before it is read, so a buffer whose
/// first entry is initialised is equivalent.
pub(crate) fn ghost_from_elem<T: Clone>(elem: T, n: usize) -> Vec<T> {
    let mut v = Vec::with_capacity(n);
    if n > 0 {
        v.push(elem);
    }
    v
}
pub(crate) fn kick(fd: RawFd) {
    if let Some(k) = slot(fd) {
        vg().counter[k] += 1;
    }
}
pub(crate) fn pending(fd: RawFd) -> bool {
    slot(fd).map_or(false, |k| vg().counter[k] > 0)
}
#[allow(dead_code)]
fn _unused(_: EventSet) {}
