// harnesses for vhost_backend
